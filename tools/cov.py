"""tools/cov.py IDS... [--shards N]: diagnostic (not a registered check). Runs the quick-tier parts of the
named properties in-process (shards 0..N-1 one after another) under coverage.py, measuring the mappyfile
package, and prints the lines of each module that no generated case reached. Used to find generator
gaps: a line a check never executes is a line whose breakage it cannot see."""
import os, sys, importlib

sys.path.insert(0, os.path.dirname(os.path.dirname(os.path.abspath(__file__))))
os.environ.setdefault("PYTHONHASHSEED", "0")
os.environ["MFV_NO_EVIDENCE"] = "1"
import coverage

from mfv import env


def main(argv):
    ids = [a for a in argv if not a.startswith("--")]
    nsh = 2
    for a in argv:
        if a.startswith("--shards="):
            nsh = int(a.split("=")[1])
    pkg = os.path.join(env.REPO, "mappyfile")
    cov = coverage.Coverage(include=[pkg + "/*.py"], data_file=None, branch=True)
    cov.start()
    from mfv import harness

    for pid in ids:
        mod = importlib.import_module("mfv.props." + pid.lower())
        for fn in getattr(mod, "PARTS", ["search"]):
            for sh in range(nsh):
                r = harness._worker((mod.__name__, fn, "quick", sh, env.NSHARDS, None))
                if "error" in r:
                    print("ERROR", pid, fn, sh, r["error"][-600:])
                else:
                    print(f"# {pid} {fn} shard {sh}: evaluations={r['evaluations']} violations={len(r['violations'])}", flush=True)
    cov.stop()
    cov.report(show_missing=True, skip_covered=False)


if __name__ == "__main__":
    main(sys.argv[1:])
