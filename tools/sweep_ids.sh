#!/bin/bash
# tools/sweep_ids.sh <tier> <seed> <ID...>: like sweep.sh for a chosen order of checks
tier=$1; seed=$2; shift 2
for id in "$@"; do
  out=$(VERIF_SEED=$seed MFV_NO_EVIDENCE=1 timeout 7200 ./check $id $tier 2>&1); code=$?
  echo "seed=$seed $id exit=$code $(echo "$out" | grep -E "^C[0-9]+ (quick|thorough)" | tail -1)"
  echo "$out" | grep -E "^(VIOLATION|HARNESS|  \[)" | head -5
done
