#!/bin/bash
# tools/confirm_seed.sh <worktree> <out_dir>: confirm a seeded change independently:
#   existing tests pass with it, demo fails with it and passes without it. Copies patch + demo to <out_dir>.
wt=$1; out=$(realpath -m "$2")
cd "$wt" || exit 2
git checkout -q -- mappyfile 2>/dev/null
git apply seeded_patch.diff || { echo "PATCH DOES NOT APPLY"; exit 2; }
t=$(/venv/bin/python -m pytest -q -p no:cacheprovider --timeout=900 --deselect tests/test_map_collection.py::test_maps 2>&1 | tail -1)
/venv/bin/python demo_seeded.py >/dev/null 2>&1; with=$?
git checkout -q -- mappyfile
/venv/bin/python demo_seeded.py >/dev/null 2>&1; without=$?
git apply seeded_patch.diff
echo "tests_with_change: $t"
echo "demo_exit_with_change=$with demo_exit_without_change=$without"
mkdir -p "$out"
cp seeded_patch.diff "$out/patch.diff"; cp demo_seeded.py "$out/demo_seeded.py"
