#!/bin/bash
# tools/process_round.sh <letter> [ID...]: confirm every finished seeded change of a round and run the property's
# quick check against it; one summary line per change. (Run while /tmp/seed_wt/<ID><letter> worktrees exist.)
L=$1; shift
IDS=${@:-C01 C02 C03 C04 C05 C06 C07 C08 C09 C10 C11 C12 C13 C14 C15 C16 C17 C18 C19 C20}
todo=""
for id in $IDS; do
  [ -f /tmp/seed_wt/${id}${L}/seeded_patch.diff ] && [ ! -f /verif/seeded/$id-$L/patch.diff ] && todo="$todo $id"
done
for id in $todo; do ( /verif/tools/confirm_seed.sh /tmp/seed_wt/${id}${L} /verif/seeded/$id-$L > /tmp/confirm_${id}${L}.txt 2>&1 ) & done
wait
for id in $todo; do
  conf=$(tail -2 /tmp/confirm_${id}${L}.txt | tr '\n' ' ' | sed 's/tests_with_change: //; s/ in [0-9.]*s[^d]*/ /')
  rm -rf /verif/replays/$id
  out=$(/verif/tools/mutant.sh /verif/seeded/$id-$L/patch.diff -- $id 2>&1 | tail -1)
  first=""
  f=$(ls /verif/replays/$id/*.json 2>/dev/null | head -1)
  [ -n "$f" ] && first=$(/venv/bin/python -c "
import json,sys; v=json.load(open('$f')); print(v['bucket'][:50], '|', v['message'][:150].replace(chr(10),' '))")
  echo "$id$L: $conf | $out | $first"
done
