#!/bin/bash
# tools/mutant.sh <patch.diff|-e 'sed expr' file> -- <ID> [<ID>...]
# Sensitivity helper: copies /repo's mappyfile package to a scratch tree, applies a patch there,
# and runs the quick checks against it (MFV_REPO).  The scratch tree is removed afterwards.
set -u
SCR=$(mktemp -d /tmp/mfv_mut.XXXXXX)
cp -r /repo/mappyfile "$SCR/mappyfile"
ln -s /repo/tests "$SCR/tests"; ln -s /repo/docs "$SCR/docs"
if [ "$1" = "-e" ]; then
  sed -i "$2" "$SCR/$3" || { echo "sed failed"; rm -rf "$SCR"; exit 2; }
  if diff -q "/repo/$3" "$SCR/$3" >/dev/null; then echo "MUTATION DID NOT CHANGE THE FILE"; rm -rf "$SCR"; exit 2; fi
  shift 3
else
  (cd "$SCR" && patch -p1 -s < "$1") || { echo "patch failed"; rm -rf "$SCR"; exit 2; }
  shift 1
fi
[ "$1" = "--" ] && shift
rc=0
for id in "$@"; do
  out=$(cd /verif && MFV_REPO="$SCR" MFV_NO_EVIDENCE=1 timeout 900 ./check "$id" ${TIER:-quick} 2>&1)
  code=$?
  echo "$out" | grep -E "^(VIOLATION|KNOWN|C[0-9]+ |HARNESS)" | head -8
  echo "  -> $id exit=$code"
done
rm -rf "$SCR"
