#!/bin/bash
# tools/sweep.sh <tier> <seed...> : run every registered check for each seed; print one line per run
tier=$1; shift
for seed in "$@"; do
  for id in C01 C02 C03 C04 C05 C06 C07 C08 C09 C10 C11 C12 C13 C14 C15 C16 C17 C18 C19 C20; do
    out=$(VERIF_SEED=$seed MFV_NO_EVIDENCE=1 timeout 7200 ./check $id $tier 2>&1); code=$?
    echo "seed=$seed $id exit=$code $(echo "$out" | grep -E "^C[0-9]+ (quick|thorough)" | tail -1)"
    echo "$out" | grep -E "^(VIOLATION|HARNESS|  \[)" | head -5
  done
done
