#!/bin/bash
# tools/seed_round.sh <letter> <ID...>: prepare scratch worktrees + prompts under /tmp/seed_wt for a round of
# independently seeded changes (the sub-agents see the property text and the earlier changes' one-line
# descriptions only, never /verif).
L=$1; shift
mkdir -p /tmp/seed_wt
for id in "$@"; do
  W=${id}${L}
  git -C /repo worktree add -q --detach /tmp/seed_wt/$W HEAD || echo "FAIL $id"
  /venv/bin/python - "$id" "$W" <<'PY'
import json, sys, glob
pid, w = sys.argv[1], sys.argv[2]
props = {json.loads(l)["id"]: json.loads(l) for l in open("/verif/properties.jsonl")}
p = props[pid]
open(f"/tmp/seed_wt/{w}.prop.txt", "w").write(open(f"/tmp/seed_wt/{pid}.prop.txt").read())
earlier = "\n".join("- " + json.load(open(m))["what"] for m in sorted(glob.glob(f"/verif/seeded/{pid}-*/meta.json")))
t = open("/tmp/seed_wt/TEMPLATE.txt").read().replace("@ID@", w).replace("@EARLIER@", earlier)
open(f"/tmp/seed_wt/{w}.prompt.txt", "w").write(t)
PY
done
ls /tmp/seed_wt/*${L}.prompt.txt | wc -l
