"""Runner machinery shared by all properties: sharding, Hypothesis driving with
collect-then-shrink, evidence, replay files, known findings (DESIGN section 2)."""
from __future__ import annotations

import json
import multiprocessing
import os
import sys
import time
import traceback
from collections import Counter

from . import env

EXIT_OK, EXIT_VIOLATION, EXIT_HARNESS = 0, 1, 2


class Discrepancy:
    """One observed deviation from the oracle."""

    def __init__(self, bucket, message, case):
        self.bucket = bucket      # coarse root-cause key (str) used for masking / de-duplication
        self.message = message
        self.case = case          # JSON-able replay case

    def as_dict(self):
        return {"bucket": self.bucket, "message": self.message, "case": self.case}


class Acc:
    """Per-shard accumulator (plain data so it can cross process boundaries)."""

    def __init__(self):
        self.evaluations = 0
        self.nontrivial = set()
        self.classes = Counter()
        self.excluded = Counter()
        self.samples = []
        self.violations = []     # list of dicts
        self.notes = []
        self.inconclusive_budget = False
        self.exhaustive_cases = 0
        self._deadline = None

    def case(self, fingerprint_src, nontrivial, sample=None, n=1):
        self.evaluations += n
        if nontrivial:
            f = env.fp(fingerprint_src)
            if f not in self.nontrivial:
                self.nontrivial.add(f)
                if sample is not None and len(self.samples) < 3:
                    self.samples.append(sample)

    def cls(self, k, n=1):
        self.classes[k] += n

    def excl(self, k, n=1):
        self.excluded[k] += n

    def over_budget(self):
        if self._deadline is not None and time.time() > self._deadline:
            self.inconclusive_budget = True
            return True
        return False

    def dump(self):
        return {
            "evaluations": self.evaluations, "nontrivial": sorted(self.nontrivial), "classes": dict(self.classes),
            "excluded": dict(self.excluded), "samples": self.samples, "violations": self.violations,
            "notes": self.notes, "inconclusive_budget": self.inconclusive_budget,
            "exhaustive_cases": self.exhaustive_cases,
        }


class _Fail(Exception):
    pass


def escaped_from_code_under_test(e):
    """'module.py:function' of the innermost frame inside the mappyfile package under test, or None."""
    pkg = os.path.join(env.REPO, "mappyfile") + os.sep
    frames = [f for f in traceback.extract_tb(e.__traceback__) if f.filename.startswith(pkg)]
    if not frames:
        return None
    return f"{os.path.basename(frames[-1].filename)}:{frames[-1].name}"


def hyp_search(acc: Acc, prop: str, name: str, shard: int, n_examples: int, body, tier="quick",
               max_rounds=6, shrink_cap_s=None):
    """Run `body(data) -> list[Discrepancy]` under Hypothesis with a seed derived from
    (VERIF_SEED, property, shard).  On a failure the shrunk case is recorded, its
    bucket masked, and the search re-run so that one run enumerates distinct root
    causes (collect-then-shrink)."""
    from hypothesis import HealthCheck, Phase, given, reject, seed, settings, strategies as st

    if shrink_cap_s is None:
        shrink_cap_s = 20 if tier == "quick" else 120
    masked = set(v["bucket"] for v in acc.violations)
    remaining = n_examples
    for round_ in range(max_rounds):
        if remaining <= 0 or acc.over_budget():
            break
        state = {"best": None, "t_fail": None, "n": 0}

        def test(data):
            if acc.over_budget() and state["best"] is None:
                # wall-clock budget used up: no further cases (recorded as inconclusive, never a violation).
                # Returning without drawing makes Hypothesis complain about inconsistent generation; that
                # complaint is swallowed below when this flag is set.
                state["budget_stop"] = True
                return
            if state["best"] is not None and time.time() - state["t_fail"] > shrink_cap_s:
                # shrinking budget used up: every further candidate is rejected at no cost; the
                # smallest failing case seen so far (state["best"]) is what gets reported
                state["capped"] = True
                reject()
            state["n"] += 1
            try:
                ds = body(data)
            except (_Fail, AssertionError):
                raise
            except Exception as e:
                # an exception the check did not anticipate: if it comes out of the code under test it is an
                # outcome to report (a violation with the traceback as evidence), not a harness error
                where = escaped_from_code_under_test(e)
                if where is None or type(e).__module__.startswith("hypothesis"):
                    raise
                ds = [Discrepancy(f"escaped:{type(e).__name__}:{where}", f"{type(e).__name__} escaped from the code under test ({where}): {e!s:.200}",
                                  {"not_replayable": True, "traceback": traceback.format_exc()[-3000:]})]
            ds = [d for d in ds if d.bucket not in masked]
            if not ds:
                return
            d = ds[0]
            if state["t_fail"] is None:
                state["t_fail"] = time.time()
            if state["best"] is None or len(json.dumps(d.case, default=repr)) <= len(json.dumps(state["best"].case, default=repr)):
                state["best"] = d
            raise _Fail(d.bucket)

        t = given(st.data())(test)
        t = settings(
            max_examples=remaining, database=None, deadline=None, derandomize=False, report_multiple_bugs=False,
            phases=(Phase.explicit, Phase.generate, Phase.shrink),
            suppress_health_check=list(HealthCheck),
        )(t)
        t = seed(env.shard_seed(f"{prop}/{name}", shard, round_))(t)
        try:
            t()
        except _Fail:
            pass
        except Exception as e:  # Flaky / Unsatisfiable after the shrink cap; anything else is a harness bug
            if state.get("budget_stop") and state["best"] is None:
                break
            if state["best"] is None or not (state.get("capped") or type(e).__name__.startswith("Flaky")):
                raise
        if state["best"] is None:
            break
        d = state["best"]
        v = d.as_dict()
        v.update({"search": name, "shard": shard, "round": round_, "seed": env.verif_seed(), "tier": tier})
        acc.violations.append(v)
        masked.add(d.bucket)
        remaining = max(0, (remaining - state["n"]) // 2)


def hyp_each(acc, prop, name, shard, items, k, make_body, tier, key=str):
    """Every item gets its own small Hypothesis search of k cases (corpus files x drawn variants)."""
    for item in items:
        if acc.over_budget():
            break
        hyp_search(acc, prop, f"{name}/{key(item)}", shard, k, make_body(item), tier, max_rounds=2)


# ----------------------------------------------------------------------------- pool

def _worker(args):
    modname, fn, tier, shard, nshards, budget_s = args
    import importlib

    mod = importlib.import_module(modname)
    acc = Acc()
    if budget_s:
        acc._deadline = time.time() + budget_s
    try:
        getattr(mod, fn)(acc, tier, shard, nshards)
    except Exception as e:
        where = escaped_from_code_under_test(e)
        if where is None or type(e).__module__.startswith("hypothesis"):
            return {"error": traceback.format_exc(), "shard": shard, "fn": fn}
        # an exception out of the code under test that the part did not anticipate: an outcome, not a harness error
        acc.violations.append({"bucket": f"escaped:{type(e).__name__}:{where}",
                               "message": f"{type(e).__name__} escaped from the code under test ({where}) in part {fn}: {e!s:.200}",
                               "case": {"not_replayable": True, "traceback": traceback.format_exc()[-3000:]},
                               "search": fn, "shard": shard, "round": 0, "seed": env.verif_seed(), "tier": tier})
    return acc.dump()


def run_sharded(modname, fn, tier, nshards=env.NSHARDS, budget_s=None, procs=None):
    procs = procs or min(16, os.cpu_count() or 1)
    ctx = multiprocessing.get_context("fork")
    with ctx.Pool(min(procs, nshards)) as pool:
        res = pool.map(_worker, [(modname, fn, tier, i, nshards, budget_s) for i in range(nshards)], chunksize=1)
    return res


# ----------------------------------------------------------------------------- known findings

def known_findings(prop):
    p = os.path.join(env.VERIF, "known_findings.json")
    if not os.path.exists(p):
        return []
    with open(p, encoding="utf-8") as f:
        data = json.load(f)
    return [k for k in data.get("findings", []) if prop in k.get("properties", {})]


def open_ids(prop=None):
    p = os.path.join(env.VERIF, "known_findings.json")
    if not os.path.exists(p):
        return set()
    with open(p, encoding="utf-8") as f:
        data = json.load(f)
    return set(k["id"] for k in data.get("findings", []) if k.get("status") == "open")


# ----------------------------------------------------------------------------- main driver

def run_property(mod, tier):
    """Full run of one property: regression cases + known findings, exhaustive part,
    generated search; writes evidence; prints VIOLATION / KNOWN-FINDING lines."""
    t0 = time.time()
    prop = mod.ID
    cfg = mod.TIERS[tier]
    budget = os.environ.get("VERIF_BUDGET_S")
    budget_s = float(budget) if budget else cfg.get("budget_s")
    merged = Acc()
    violations = []
    kf_lines = []
    kf_reproduced = []

    # 1. known findings and regression cases
    for k in known_findings(prop):
        cases = k["properties"][prop]
        if isinstance(cases, dict):
            cases = [cases]
        still = []
        for c in cases:
            try:
                ds = mod.replay(c)
            except Exception as e:
                where = escaped_from_code_under_test(e)
                if where is None:
                    raise
                ds = [Discrepancy(f"escaped:{type(e).__name__}:{where}", f"{type(e).__name__} escaped from the code under test ({where}) while replaying {k['id']}: {e!s:.200}", c)]
            merged.evaluations += 1
            if ds:
                still.append((c, ds))
        if k.get("status") == "open":
            if still:
                kf_lines.append(f"KNOWN-FINDING: property={prop} {k['id']} {k['what']}")
                kf_reproduced.append(k["id"])
            else:
                merged.notes.append(f"open known finding {k['id']} did not reproduce on this tree")
        else:
            for c, ds in still:
                violations.append({"bucket": "regression:" + k["id"], "message": f"fixed finding {k['id']} is back: " + ds[0].message,
                                   "case": c, "search": "regress", "shard": -1, "round": 0, "seed": env.verif_seed(), "tier": tier})
    rdir = os.path.join(env.VERIF, "regress", prop)
    if os.path.isdir(rdir):
        for fn in sorted(os.listdir(rdir)):
            if fn.endswith(".json"):
                with open(os.path.join(rdir, fn), encoding="utf-8") as f:
                    c = json.load(f)
                ds = mod.replay(c.get("case", c))
                merged.evaluations += 1
                merged.cls("regress_cases")
                if ds:
                    violations.append({"bucket": "regress:" + fn, "message": ds[0].message, "case": c.get("case", c),
                                       "search": "regress", "shard": -1, "round": 0, "seed": env.verif_seed(), "tier": tier})

    # 2./3. sharded parts
    errors = []
    exhaustive = False
    for fn in getattr(mod, "PARTS", ["search"]):
        nsh = cfg.get("nshards", env.NSHARDS)
        for r in run_sharded(mod.__name__, fn, tier, nsh, budget_s):
            if "error" in r:
                errors.append(r)
                continue
            merged.evaluations += r["evaluations"]
            merged.nontrivial.update(r["nontrivial"])
            merged.classes.update(r["classes"])
            merged.excluded.update(r["excluded"])
            merged.exhaustive_cases += r["exhaustive_cases"]
            for s in r["samples"]:
                if len(merged.samples) < 6:
                    merged.samples.append(s)
            merged.notes.extend(r["notes"])
            merged.inconclusive_budget |= r["inconclusive_budget"]
            violations.extend(r["violations"])
    if errors:
        for e in errors[:3]:
            sys.stderr.write(f"HARNESS ERROR in {prop} shard {e['shard']} ({e['fn']}):\n{e['error']}\n")
        return EXIT_HARNESS

    # de-duplicate violations by bucket (smallest case wins)
    by_bucket = {}
    for v in violations:
        b = v["bucket"]
        if b not in by_bucket or len(json.dumps(v["case"], default=repr)) < len(json.dumps(by_bucket[b]["case"], default=repr)):
            by_bucket[b] = v
    violations = list(by_bucket.values())

    # replay files
    lines = []
    if violations:
        rep_dir = os.path.join(env.VERIF, "replays", prop)
        os.makedirs(rep_dir, exist_ok=True)
        for v in violations:
            name = f"{tier}-seed{env.verif_seed()}-{env.fp(v['bucket'])}.json"
            path = os.path.join(rep_dir, name)
            with open(path, "w", encoding="utf-8") as f:
                json.dump({"property": prop, **v}, f, indent=1, ensure_ascii=True, default=repr)
            lines.append(f"VIOLATION property={prop} replay={path}")
            sys.stderr.write(f"  [{v['bucket']}] {v['message'][:400]}\n")

    # evidence
    sa = sorted(k[3:] for k in merged.classes if k.startswith("sa:"))
    for k in list(merged.classes):
        if k.startswith("sa:"):
            del merged.classes[k]
    samples = merged.samples or getattr(mod, "FALLBACK_SAMPLES", [])
    cov = {
        "evaluations": merged.evaluations,
        "distinct_nontrivial": len(merged.nontrivial),
        "rule": mod.RULE,
        "samples": samples[:6],
        "classes": dict(sorted(merged.classes.items())),
        "excluded": dict(sorted(merged.excluded.items())),
        "excluded_by_known_finding": {k: v for k, v in merged.excluded.items() if k.startswith("KF")},
        "known_findings_reproduced": kf_reproduced,
        "inconclusive_budget": merged.inconclusive_budget,
        "exhaustive": bool(cfg.get("exhaustive", False)) and not merged.inconclusive_budget,
        "exhaustive_cases": merged.exhaustive_cases,
        **({"slot_alternatives_covered": len(sa), "slot_alternatives_total": getattr(mod, "SLOT_ALTS_TOTAL", None)} if sa else {}),
        "notes": merged.notes[:20],
        "shards": cfg.get("nshards", env.NSHARDS),
        "repo": env.REPO,
    }
    ev = {
        "property_id": prop, "tier": tier, "seed": env.verif_seed(), "level": "exploration",
        "coverage": cov, "assumptions": getattr(mod, "ASSUMPTIONS", []),
        "wall_s": round(time.time() - t0, 2), "violations": len(violations),
    }
    if not os.environ.get("MFV_NO_EVIDENCE"):  # sensitivity runs against scratch copies leave the evidence alone
        os.makedirs(os.path.join(env.VERIF, "evidence"), exist_ok=True)
        with open(os.path.join(env.VERIF, "evidence", f"{prop}.json"), "w", encoding="utf-8") as f:
            json.dump(ev, f, indent=1, ensure_ascii=True, default=repr)

    for l in kf_lines:
        print(l)
    for l in lines:
        print(l)
    print(f"{prop} {tier}: evaluations={merged.evaluations} distinct_nontrivial={len(merged.nontrivial)} "
          f"violations={len(violations)} known_findings={len(kf_reproduced)} wall={ev['wall_s']}s"
          + (" (budget reached: inconclusive beyond what was explored)" if merged.inconclusive_budget else ""))
    sys.stdout.flush()
    return EXIT_VIOLATION if violations else EXIT_OK


def run_replay(mod, path):
    with open(path, encoding="utf-8") as f:
        c = json.load(f)
    case = c.get("case", c)
    if isinstance(case, dict) and case.get("not_replayable"):
        sys.stderr.write("this record holds a traceback, not a replayable case: re-run the check itself\n" + case.get("traceback", "") + "\n")
        return EXIT_HARNESS
    ds = mod.replay(case)
    if ds:
        for d in ds:
            sys.stderr.write(f"  [{d.bucket}] {d.message[:600]}\n")
        print(f"VIOLATION property={mod.ID} replay={path}")
        return EXIT_VIOLATION
    print(f"{mod.ID} replay: case passes")
    return EXIT_OK
