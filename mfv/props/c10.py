"""C10 - expression rewriting preserves structure.

G: expression trees (exhaustive for small sizes over one spelling per operator class,
   random for larger ones with every operator spelling, operand kind, redundant
   parentheses and inner spacing) placed in every expression-capable keyword;
   plus non-tree values (list expressions, regexes, "..."i strings, bindings, NOT (...)).
O: a precedence-climbing reference parser (mfv.exprs) re-reads the normalised string
   stored by loads and must obtain the same tree; && || ! are spelled AND OR NOT;
   dumps writes the value unquoted (independent reader); re-parsing gives the same string."""
from __future__ import annotations

import os

import itertools

from .. import env, exprs, model, reader
from ..harness import Acc, Discrepancy, hyp_search, open_ids

ID = "C10"
RULE = ("Exhaustive: every well-typed tree (logical over comparisons over arithmetic) with <= 3 (quick) / 4 (thorough) operators "
        "over one spelling per operator class {OR, AND, NOT, =, +, *, unary -} and operands {binding, number, string}, written with "
        "the parentheses MapServer's precedence requires. Random (Hypothesis): trees up to ~12 operators over every operator "
        "spelling (= == != < <= > >= ~ ~* =* IN EQ NE LT LE GT GE LIKE in any case, AND/&&, OR/||, NOT/!, + - * / ^, unary -), "
        "operands (bindings, ints, decimals, double/single/back-quoted strings, function calls), redundant parentheses, inner "
        "spacing; each in CLASS EXPRESSION, LAYER FILTER, CLASS/LABEL TEXT, STYLE/LAYER GEOMTRANSFORM, CLUSTER GROUP/FILTER, "
        "LABEL EXPRESSION/SIZE/PRIORITY, STYLE SIZE. Non-trivial: >= 2 operators of different precedence levels, or a required "
        "/ redundant parenthesis, or NOT. Distinct = (tree, source text, context).")
ASSUMPTIONS = [
    "binary operators are surrounded by spaces ([a]-1 lexes as a signed number in MapServer too)",
    "unary minus only before bindings / calls / parenthesised operands; numeric operands compared by value",
    "function-call arguments are plain values; no boolean literals as operands",
    "'%' is excluded from generated trees while known finding KF10b is open (grammar treats it as a comparison operator)",
]
TIERS = {
    "quick": {"exh_ops": 3, "examples": 40000, "budget_s": 110, "exhaustive": True},
    "thorough": {"exh_ops": 4, "examples": 300000, "budget_s": 1800, "exhaustive": True},
}
PARTS = ["exhaustive", "search"]

CONTEXTS = [
    ("class", "expression", "logic"), ("layer", "filter", "logic"), ("class", "text", "any"), ("label", "text", "any"),
    ("style", "geomtransform", "arith"), ("layer", "geomtransform", "arith"), ("cluster", "group", "any"),
    ("cluster", "filter", "logic"), ("label", "expression", "logic"), ("label", "size", "arith"), ("label", "priority", "arith"),
    ("style", "size", "arith"),
]


def doc_text(ctx, src):
    t, k, _ = ctx
    extra = " TYPE POINT" if t == "layer" else ""
    return f"{t.upper()}{extra}\n  {k.upper()} {src}\nEND"


def bucket_for(stage, tree, msg):
    lv = sorted(exprs.levels_used(tree)) if tree else []
    return f"{stage}:{msg[:28]}:levels{lv}"


def check_expr(tree, src, ctx, case, public=False):
    """src includes the outer parentheses."""
    W = env.Workers.get()
    text = doc_text(ctx, src)
    case = dict(case, text=text)
    try:
        if public:
            import mappyfile

            d = mappyfile.loads(text)
        else:
            d = W.loads(text)
    except Exception as e:
        return [Discrepancy(bucket_for("load", tree, type(e).__name__), f"loads rejected expression {src!r}: {type(e).__name__}: {e!s:.100}", case)]
    v = d.get(ctx[1])
    msgs = exprs.check_normalised(tree, v)
    if msgs:
        return [Discrepancy(bucket_for("normalised", tree, msgs[0]), f"{ctx[0]}.{ctx[1]} source {src!r}: {msgs[0]}", case)]
    # printed unquoted, verbatim
    try:
        out = W.dumps(d)
    except Exception as e:
        return [Discrepancy(bucket_for("dumps", tree, type(e).__name__), f"dumps raised {type(e).__name__}: {e!s:.100}", case)]
    try:
        ev, _ = reader.events(out)
    except reader.ReaderError as e:
        return [Discrepancy(bucket_for("print", tree, "unreadable"), f"printed text unreadable: {e}", case)]
    attrs = [e for e in ev if e[0] == "attr" and e[1] == ctx[1]]
    if len(attrs) != 1 or attrs[0][2] != [("E", v)]:
        return [Discrepancy(bucket_for("print", tree, "not verbatim unquoted"), f"{ctx[0]}.{ctx[1]} value {v!r} printed as {attrs!r:.200}", case)]
    try:
        d2 = W.loads(out)
    except Exception as e:
        return [Discrepancy(bucket_for("reload", tree, type(e).__name__), f"printed expression rejected: {v!r}: {e!s:.100}", case)]
    v2 = d2.get(ctx[1])
    if v2 != v:
        return [Discrepancy(bucket_for("fixed_point", tree, "differs"), f"not a fixed point: {v!r} -> {v2!r}", case)]
    if case.get("reread"):
        # the same file read twice through one Parser object (and the string API once more): the same normalised string
        import tempfile

        fn = os.path.join(tempfile.gettempdir(), "mfv_c10_%d.map" % os.getpid())
        try:
            with open(fn, "w", encoding="utf-8", newline="") as f:
                f.write(text)
            p = W.parser()
            reads = [W.m2d().transform(p.parse_file(fn)).get(ctx[1]) for _ in range(2)] + [W.loads(text).get(ctx[1])]
        except Exception as e:
            return [Discrepancy(bucket_for("reread", tree, type(e).__name__), f"reading the file again raised {type(e).__name__}: {e!s:.100}", case)]
        finally:
            if os.path.exists(fn):
                os.remove(fn)
        if any(x != v for x in reads):
            return [Discrepancy(bucket_for("reread", tree, "differs"), f"read again through the same Parser the expression is {reads!r:.300} instead of {v!r}", case)]
    return []


# ------------------------------------------------------------------ exhaustive small trees

LEAVES = [["atom", "[a]"], ["atom", "7"], ["atom", '"x"']]


def arith_trees(n):
    """all arithmetic trees with exactly n operators over {+, *, neg} and LEAVES"""
    if n == 0:
        return [l for l in LEAVES]
    out = []
    for inner in arith_trees(n - 1):
        # unary minus only on bindings / parenthesised (non-literal) operands
        if not (inner[0] == "atom" and not inner[1].startswith("[")) and inner[0] != "neg":
            out.append(["neg", inner])
    for k in range(n):
        for a in arith_trees(k):
            for b in arith_trees(n - 1 - k):
                out.append(["bin", "+", a, b])
                out.append(["bin", "*", a, b])
    return out


def cmp_trees(n):
    """plain comparisons over arithmetic with exactly n operators"""
    out = []
    for k in range(n):
        for a in arith_trees(k):
            for b in arith_trees(n - 1 - k):
                out.append(["cmp", "=", a, b])
    return out


def logic_trees(n, cache={}):
    """all logical trees with exactly n operators; a comparison counts as one operator"""
    if n in cache:
        return cache[n]
    out = []
    if n >= 1:
        # comparison over arithmetic with n-1 operators in total
        for k in range(n):
            for a in arith_trees(k):
                for b in arith_trees(n - 1 - k):
                    out.append(["cmp", "=", a, b])
        # chains of comparison-level operators (left-associative; a nested comparison on the right needs parentheses)
        for k in range(1, n):
            for a in cmp_trees(k):
                for b in arith_trees(n - 1 - k):
                    out.append(["cmp", ">", a, b])
                    if n - 1 - k == 0:
                        out.append(["cmp", ">", b, a])
        for inner in logic_trees(n - 1):
            out.append(["not", inner])
        for k in range(1, n - 1):
            for a in logic_trees(k):
                for b in logic_trees(n - 1 - k):
                    out.append(["and", a, b])
                    out.append(["or", a, b])
    cache[n] = out
    return out


def exhaustive(acc: Acc, tier, shard, nshards):
    N = TIERS[tier]["exh_ops"]
    fixed = exprs.Fixed()
    idx = 0
    for n in range(1, N + 1):
        pool = [("logic", t) for t in logic_trees(n)] + [("arith", t) for t in arith_trees(n)]
        for kind, tree in pool:
            idx += 1
            if idx % nshards != shard:
                continue
            if acc.over_budget():
                return
            ctxs = [c for c in CONTEXTS if c[2] in (kind, "any")]
            ctx = ctxs[idx // nshards % len(ctxs)]
            src = "(" + exprs.src(tree, fixed) + ")"
            lv = exprs.levels_used(tree)
            nt = len(lv) >= 2 or "(" in src[1:-1] or exprs.PREC["not"] in lv
            acc.evaluations += 1
            acc.exhaustive_cases += 1
            acc.cls("exh:ops%d" % n)
            if nt:
                acc.nontrivial.add(env.fp([tree, ctx]))
                if len(acc.samples) < 2 and n == N and idx % 97 == 0:
                    acc.samples.append({"source": src, "context": f"{ctx[0]}.{ctx[1]}"})
            for d in check_expr(tree, src, ctx, {"tree": tree, "src": src, "ctx": list(ctx)}):
                if not any(v["bucket"] == d.bucket for v in acc.violations):
                    acc.violations.append({**d.as_dict(), "search": "exhaustive", "shard": shard, "round": 0,
                                           "seed": env.verif_seed(), "tier": tier})


# ------------------------------------------------------------------ random trees and non-tree values

NONTREE = [
    ("class", "expression", "{a,b,c}", "L"), ("class", "expression", "{1,2,3}", "L"), ("class", "expression", "{road,rail road}", "L"),
    ("class", "expression", "/^a.b$/", "R"), ("layer", "filter", "/x|y/", "R"), ("class", "expression", "/^r/i", "R"),
    ("layer", "filter", "/[0-9]+/i", "R"),
    ("class", "expression", '"abc"i', "QI"), ("class", "expression", "'abc'i", "QI"),
    ("label", "size", "[size]", "B"), ("style", "size", "[sz]", "B"), ("label", "priority", "[p]", "B"),
    ("style", "angle", "[rot]", "B"), ("style", "color", "[col]", "B"),
]


def check_nontree(t, k, src, cls, case):
    W = env.Workers.get()
    ctx = (t, k, "any")
    text = doc_text(ctx, src)
    case = dict(case, text=text)
    try:
        d = W.loads(text)
    except Exception as e:
        return [Discrepancy(f"nontree:load:{cls}", f"loads rejected {src!r} at {t}.{k}: {e!s:.100}", case)]
    v = d.get(k)
    if cls == "L":
        # list expressions keep their elements verbatim (separator spacing is not content)
        norm = lambda s: [x.strip() for x in s.strip("{}").split(",")]
        if not isinstance(v, str) or norm(v) != norm(src):
            return [Discrepancy("nontree:list:changed", f"list expression {src!r} stored as {v!r}", case)]
    elif v != src:
        return [Discrepancy(f"nontree:{cls}:changed", f"{src!r} stored as {v!r}", case)]
    try:
        out = W.dumps(d)
        ev, _ = reader.events(out)
    except Exception as e:
        return [Discrepancy(f"nontree:print:{cls}:{type(e).__name__}", f"printing {v!r} failed: {e!s:.100}", case)]
    attrs = [e for e in ev if e[0] == "attr" and e[1] == k]
    if len(attrs) != 1 or attrs[0][2] != [(cls, v)]:
        return [Discrepancy(f"nontree:print:{cls}:class", f"{t}.{k} value {v!r} printed as {attrs[0][2] if attrs else None!r} (expected lexical class {cls}, unquoted verbatim)", case)]
    try:
        v2 = W.loads(out).get(k)
    except Exception as e:
        return [Discrepancy(f"nontree:reload:{cls}", f"printed {v!r} rejected: {e!s:.100}", case)]
    if v2 != v:
        return [Discrepancy(f"nontree:fixed_point:{cls}", f"{v!r} -> {v2!r}", case)]
    return []


def search(acc: Acc, tier, shard, nshards):
    n = TIERS[tier]["examples"] // nshards
    kf = open_ids()
    counter = {"i": 0}
    exprs.AVOID["percent"] = "KF10b" in kf

    def body(data):
        ch = model.Ch(data.draw)
        counter["i"] += 1
        if ch.chance(1, 12):
            t, k, src, cls = ch.choice(NONTREE)
            if cls == "R" and src.endswith("i") and "KF18" in kf:
                acc.excl("KF18:regex_i")
                return []
            acc.case(["nontree", t, k, src], True)
            acc.cls("nontree:" + cls)
            return check_nontree(t, k, src, cls, {"nontree": [t, k, src, cls]})
        depth = ch.choice([1, 2, 2, 3, 3, 4])
        tree = exprs.gen_tree(ch, depth)
        kind = "logic" if tree[0] in ("or", "and", "not", "cmp") else "arith"
        ctx = ch.choice([c for c in CONTEXTS if c[2] in (kind, "any")])
        st_ = {}
        src = ch.choice(["(", "( ", "(  "]) + exprs.src(tree, ch, stats=st_) + ch.choice([")", " )"])
        lv = exprs.levels_used(tree)
        nt = len(lv) >= 2 or bool(st_) or exprs.PREC["not"] in lv
        acc.case([tree, src, ctx], nt, sample={"source": src, "context": f"{ctx[0]}.{ctx[1]}"} if exprs.n_ops(tree) >= 4 else None)
        acc.cls("ops:%d" % min(exprs.n_ops(tree), 12))
        acc.cls("ctx:%s.%s" % (ctx[0], ctx[1]))
        for k2, v2 in st_.items():
            acc.cls(k2, v2)
        for lvl in lv:
            acc.cls("level:%d" % lvl)
        return check_expr(tree, src, ctx, {"tree": tree, "src": src, "ctx": list(ctx), "reread": ch.chance(1, 8)}, public=ch.chance(1, 200))

    hyp_search(acc, ID, "trees", shard, n, body, tier)
    for k, v in exprs.EXCLUDED.items():
        acc.excl(k, v)


def replay(case):
    if "nontree" in case:
        t, k, src, cls = case["nontree"]
        return check_nontree(t, k, src, cls, case)
    return check_expr(case["tree"], case["src"], tuple(case["ctx"]), case)
