"""C09 - version-aware validation follows minVersion / maxVersion.

Exhaustive product: annotated schema entry x versions around each bound x parent chain
x root schema.  Oracle: an independent pruner written from the statement (remove every
property / alternative whose range excludes the version, at any depth) applied to the
harness's own inlined copy of the raw schema files, evaluated with Draft 4; the names
of the messages validate() returns must equal the names derived from the reference
errors.  Plus a Hypothesis state machine over one Validator object and the module API."""
from __future__ import annotations

import copy
import json
import os
from functools import lru_cache

from .. import env, model, render, vocab
from ..harness import Acc, Discrepancy, open_ids
from . import c19

ID = "C09"
RULE = ("Exhaustive: every schema entry annotated with minVersion/maxVersion (property-level and alternative-level, read from "
        "the raw schema files) x versions {None, 4.0, 99.0, bound-0.1, bound, bound+0.1} x every parent chain (depth <= 5) by "
        "which the owning object type can occur as a block in text x the chain's root schema; one minimal document per case, "
        "loaded from rendered text. Expected message names come from an independent deep pruner + Draft-4 evaluation of the "
        "harness's own copy of the schemas. History: Hypothesis RuleBasedStateMachine over one Validator object (validate with / "
        "without version, get_versioned_schema, get_expanded_schema, JSON export) and the module-level validate; every result must "
        "equal that of a fresh Validator. Non-trivial: version within 0.1 of a bound, or chain depth >= 3, or a history with >= 2 "
        "distinct versions. Distinct = (entry, version, chain) / history.")
ASSUMPTIONS = [
    "jsonschema's Draft4Validator is the trusted evaluator (mappyfile's own dependency); what is tested is the pruning and plumbing",
    "chains through the inline SYMBOL block of STYLE / CLASS are excluded while KF16 is open (such text never validates, at any version)",
]
TIERS = {
    "quick": {"budget_s": 110, "exhaustive": True, "machine_runs": 64, "machine_steps": 12, "max_depth": 4},
    "thorough": {"budget_s": 1800, "exhaustive": True, "machine_runs": 1600, "machine_steps": 40, "max_depth": 5},
}
PARTS = ["product", "machine", "cli_part"]


# ------------------------------------------------------------------ reference pruner

def _range(node):
    m = {}
    for src in (node.get("__siblings__", {}), node):
        md = src.get("metadata") if isinstance(src, dict) else None
        if isinstance(md, dict) and ("minVersion" in md or "maxVersion" in md):
            for k in ("minVersion", "maxVersion"):
                if k in md:
                    m[k] = md[k]
    return m


def _in(meta, v):
    return meta.get("minVersion", float("-inf")) <= v <= meta.get("maxVersion", float("inf"))


def prune(node, v):
    if isinstance(node, dict):
        out = {}
        for k, x in node.items():
            if k in ("__ref__", "__siblings__"):
                continue
            if isinstance(x, dict) and k != "metadata_annotation":
                if not _in(_range(x), v) and k not in ("items",):
                    continue
                out[k] = prune(x, v)
            elif isinstance(x, list):
                out[k] = [prune(e, v) for e in x if not (isinstance(e, dict) and not _in(_range(e), v))]
            else:
                out[k] = x
        return out
    if isinstance(node, list):
        return [prune(e, v) for e in node]
    return node


@lru_cache(maxsize=None)
def reference_validator(name, v):
    import jsonschema

    full = vocab.inline(copy.deepcopy(vocab.raw(name)))
    sch = prune(full, v) if v is not None else vocab.draft4_schema(name)
    return jsonschema.Draft4Validator(sch)


def lower_json(x):
    if isinstance(x, (list, tuple)):
        return [lower_json(v) for v in x]
    if isinstance(x, dict):
        return {str(k).lower(): lower_json(v) for k, v in x.items()}
    if isinstance(x, str):
        return x.lower()
    return x


def find(d, path):
    for p in path:
        d = d[p]
    return d


def expected_names(d, name, v):
    """names the messages must carry, from the reference evaluation"""
    jsn = json.loads(json.dumps(lower_json(d)))
    names = []
    for err in reference_validator(name, v).iter_errors(jsn):
        path = list(err.absolute_path)
        while path and isinstance(path[-1], int) and not isinstance(find(jsn, path), dict):
            path = path[:-1]
        if not path or isinstance(path[-1], int):
            names.append(find(jsn, path)["__type__"].upper())
        else:
            names.append(str(path[-1]).upper())
    return sorted(names)


def message_names(msgs):
    return sorted(m["message"].split()[-1].upper() for m in msgs)   # the message names the keyword / object: its last word


# ------------------------------------------------------------------ exhaustive product

def chains(target, maxdepth, avoid_kf16=True):
    """parent chains root..target: list of [(type, key_in_parent, is_list)...]"""
    res = []
    edges = {}
    for (p, k, c, lst) in vocab.child_edges():
        if p == "symbolset":
            continue
        if avoid_kf16 and c == "symbol" and p in ("style", "class"):
            continue
        edges.setdefault(p, []).append((k, c, lst))

    def rec(path):
        t = path[-1][0]
        if t == target:
            res.append(list(path))
        if len(path) >= maxdepth:
            return
        for k, c, lst in edges.get(t, []):
            if any(p[0] == c for p in path):
                continue
            rec(path + [(c, k, lst)])

    for root in vocab.OBJ_TYPES:
        rec([(root, None, False)])
    if target == "symbol":
        res.append([("symbolset", None, False), ("symbol", "symbols", True)])
    return res


def versions_for(meta):
    vs = {None, 4.0, 99.0}
    for b in (meta.get("minVersion"), meta.get("maxVersion")):
        if b is not None:
            # at the bound, one release step and one tenth away, and as close as a caller can reasonably write
            # (7.59 / 7.61): the statement is an inequality over numbers, not over release names
            vs |= {round(b - 0.2, 1), round(b - 0.1, 1), round(b - 0.01, 2), float(b), round(b + 0.01, 2), round(b + 0.1, 1), round(b + 0.2, 1)}
    return sorted(vs, key=lambda x: (-1 if x is None else x))


def build_doc(chain, leaf_items):
    obj = {"t": chain[-1][0], "items": copy.deepcopy(leaf_items)}
    if obj["t"] == "layer" and not any(i[0] == "attr" and i[1] == "type" for i in obj["items"]):
        obj["items"].append(["attr", "type", "enum", "POINT"])
    for (t, k, lst) in reversed(chain[:-1]):
        parent = {"t": t, "items": [["obj", obj]]}
        if t == "layer":
            parent["items"].append(["attr", "type", "enum", "POINT"])
        obj = parent
    return [obj]


def entries():
    out = []
    for (t, k, ai, meta) in vocab.annotated_entries():
        slot = vocab.slots(t)[k]
        alts = [slot.alts[ai]] if ai is not None else slot.alts
        rep = None
        for a in alts:
            vals = c19.rep_values(t, slot, a, 1)
            if vals:
                rep = vals[0]
                break
        out.append((t, k, ai, meta, rep))
    return out


def check_case(doc, root, v, case, validator=None):
    W = env.Workers.get()
    text = render.render(doc).text
    case = dict(case, text=text, version=v, root=root)
    try:
        d = W.loads(text, position=True)
    except Exception as e:
        return [Discrepancy(f"load:{type(e).__name__}", f"case document does not load: {e!s:.100}", case)]
    V = validator or W.validator()
    try:
        msgs = V.validate(d, schema_name=root, version=v)
    except Exception as e:
        return [Discrepancy(f"raises:{type(e).__name__}:{case.get('entry')}", f"validate(version={v}) raised {type(e).__name__}: {e!s:.100}", case)]
    got = message_names(msgs)
    exp = expected_names(d, root, v)
    if got != exp:
        t, k, ai = case.get("entry", ["?", "?", None])[:3]
        side = "accepted_out_of_range" if len(got) < len(exp) else "rejected_in_range"
        return [Discrepancy(f"{side}:{t}.{k}:{ai}", f"version {v}, schema {root}, chain {case.get('chain')}: validate names {got}, "
                            f"the schema pruned for that version gives {exp}; errors: {[m['error'][:70] for m in msgs][:3]}", case)]
    return []


def product(acc: Acc, tier, shard, nshards):
    maxdepth = TIERS[tier]["max_depth"]
    kf16 = "KF16" in open_ids()
    idx = 0
    for (t, k, ai, meta, rep) in entries():
        if rep is None:
            acc.excl(f"no_representative:{t}.{k}")
            continue
        chs = chains(t, maxdepth, avoid_kf16=kf16)
        if kf16 and t == "symbol":
            acc.excl("KF16:inline_symbol_block")
        for ch in chs:
            for v in versions_for(meta):
                idx += 1
                if idx % nshards != shard:
                    continue
                if acc.over_budget():
                    return
                doc = build_doc(ch, rep)
                near = v is not None and any(abs(v - b) < 0.11 for b in (meta.get("minVersion"), meta.get("maxVersion")) if b is not None)
                acc.evaluations += 1
                acc.exhaustive_cases += 1
                if near or len(ch) >= 3:
                    acc.nontrivial.add(env.fp([t, k, ai, v, [c[0] for c in ch]]))
                acc.cls("entry:" + ("property" if ai is None else "alternative"))
                acc.cls("chain_depth:%d" % len(ch))
                acc.cls("version:" + ("none" if v is None else "near_bound" if near else "far"))
                case = {"entry": [t, k, ai, meta], "chain": [c[0] for c in ch], "doc": doc}
                if len(acc.samples) < 2 and idx % 501 == shard:
                    acc.samples.append({"entry": f"{t}.{k} alt={ai} {meta}", "version": v, "text": render.render(doc).text})
                for dd in check_case(doc, ch[0][0], v, case):
                    if not any(x["bucket"] == dd.bucket for x in acc.violations):
                        acc.violations.append({**dd.as_dict(), "search": "product", "shard": shard, "round": 0, "seed": env.verif_seed(), "tier": tier})


# ------------------------------------------------------------------ history machine

def machine(acc: Acc, tier, shard, nshards):
    from hypothesis import HealthCheck, Phase, seed, settings, strategies as st
    from hypothesis.stateful import RuleBasedStateMachine, initialize, rule, run_state_machine_as_test

    import mappyfile

    cfg = TIERS[tier]
    runs = max(1, cfg["machine_runs"] // nshards)
    W = env.Workers.get()
    ents = [e for e in entries() if e[4] is not None]
    VERS = [None, 3.8, 4.0, 4.8, 5.0, 5.2, 5.4, 5.6, 6.0, 6.2, 6.4, 7.0, 7.2, 7.6, 8.0, 8.2, 8.4, 99.0]
    NAMES = ["map", "layer", "class", "style", "label", "symbol", "web", "scalebar"]
    fresh_cache = {}
    state = {"fail": None}

    def fresh_result(kind, key, fn):
        k = (kind, key)
        if k not in fresh_cache:
            fresh_cache[k] = fn(W.Validator())
        return fresh_cache[k]

    def canon(x):
        return json.dumps(x, sort_keys=True, default=lambda o: repr(o))

    class M(RuleBasedStateMachine):
        @initialize()
        def init(self):
            self.V = W.Validator()
            self.hist = []
            self.versions = set()

        def _fail(self, msg):
            state["fail"] = (msg, list(self.hist))
            raise AssertionError(msg)

        def _call(self, what, fn):
            """an exception escaping from the validator is an outcome to report, not a harness error"""
            try:
                return fn()
            except AssertionError:
                raise
            except Exception as e:
                import traceback

                if any(os.sep + "mappyfile" + os.sep in f.filename for f in traceback.extract_tb(e.__traceback__)):
                    self._fail(f"{what} raised {type(e).__name__}: {e!s:.100}")
                raise

        @rule(e=st.sampled_from(range(len(ents))), v=st.sampled_from(VERS), which=st.sampled_from(["object", "module"]))
        def validate(self, e, v, which):
            t, k, ai, meta, rep = ents[e]
            ch = chains(t, 3)[0]
            doc = build_doc(ch, rep)
            text = render.render(doc).text
            d = W.loads(text)
            root = ch[0][0]
            self.hist.append(["validate", which, f"{t}.{k}", v, root])
            self.versions.add(v)
            if which == "module" and root == "map":
                got = self._call(f"mappyfile.validate(version={v})", lambda: mappyfile.validate(d, version=v))
            else:
                got = self._call(f"validate({t}.{k}, version={v}, schema={root})", lambda: self.V.validate(d, schema_name=root, version=v))
            exp = self._call(f"validate on a fresh Validator (version={v}, schema={root})",
                             lambda: fresh_result("validate", (text, v, root), lambda F: F.validate(W.loads(text), schema_name=root, version=v)))
            if canon(got) != canon(exp):
                self._fail(f"validate({t}.{k}, version={v}, schema={root}) after history differs from a fresh Validator: {message_names(got)} vs {message_names(exp)}")

        @rule(v=st.sampled_from(VERS), name=st.sampled_from(NAMES))
        def versioned_schema(self, v, name):
            self.hist.append(["get_versioned_schema", v, name])
            self.versions.add(v)
            got = self._call(f"get_versioned_schema({v}, {name!r})", lambda: canon(self.V.get_versioned_schema(v, name)))
            exp = self._call(f"get_versioned_schema({v}, {name!r}) on a fresh Validator", lambda: fresh_result("versioned", (v, name), lambda F: canon(F.get_versioned_schema(v, name))))
            if got != exp:
                self._fail(f"get_versioned_schema({v}, {name!r}) after history differs from a fresh Validator")

        @rule(v=st.sampled_from(VERS), name=st.sampled_from(NAMES))
        def expanded_schema(self, v, name):
            self.hist.append(["get_expanded_schema", name, v])
            got = self._call(f"get_expanded_schema({name!r}, {v})", lambda: canon(self.V.get_expanded_schema(name, v)))
            exp = self._call(f"get_expanded_schema({name!r}, {v}) on a fresh Validator",
                             lambda: fresh_result("expanded", (name, v, tuple(sorted(str(x) for x in [])), "fresh"), lambda F: canon(F.get_expanded_schema(name, v))))
            # an expanded schema for a version that was already pruned on this object is the pruned one by design
            # (cache per version); only the version-less schema must never change
            if v is None and got != exp:
                self._fail(f"get_expanded_schema({name!r}) (no version) changed after versioned calls")

        def teardown(self):
            h = getattr(self, "hist", [])
            acc.evaluations += 1
            if len([x for x in getattr(self, "versions", ())]) >= 2:
                acc.nontrivial.add(env.fp(h))
            for x in h:
                acc.cls("machine:" + x[0])

    try:
        run_state_machine_as_test(
            seed(env.shard_seed(ID + "/machine", shard))(M),
            settings=settings(max_examples=runs, stateful_step_count=cfg["machine_steps"], deadline=None, database=None,
                              report_multiple_bugs=False, suppress_health_check=list(HealthCheck),
                              phases=(Phase.generate, Phase.shrink)),
        )
    except AssertionError:
        pass
    except Exception:
        if state["fail"] is None:
            raise
    if state["fail"]:
        msg, hist = state["fail"]
        acc.violations.append({"bucket": "history:" + hist[-1][0], "message": f"history {hist}: {msg}", "case": {"history": hist},
                               "search": "machine", "shard": shard, "round": 0, "seed": env.verif_seed(), "tier": tier})
    if len(acc.samples) < 3 and fresh_cache:
        acc.samples.append({"history_example": "validate / get_versioned_schema / get_expanded_schema calls with versions " + str(VERS)})


def cli_case(text, version):
    """the command line is one more way to supply a version: `mappyfile validate FILE --version V` succeeds exactly
    when the API finds nothing to report at that version"""
    import shutil
    import tempfile

    import mappyfile

    from . import c20

    work = tempfile.mkdtemp(prefix="mfv_c09cli_")
    try:
        with open(os.path.join(work, "v.map"), "w", encoding="utf-8") as f:
            f.write(text)
        exp = mappyfile.validate(mappyfile.open(os.path.join(work, "v.map"), include_position=True), version=version)
        code, out, err = c20.run_cli(["validate", "v.map", "--version", str(version)], work)
        case = {"cli_text": text, "version": version}
        if (code == 0) != (not exp):
            return [Discrepancy("cli_version", f"`mappyfile validate --version {version}` exits with {code} where the API reports {len(exp)} message(s): "
                                f"{[m['message'] for m in exp][:3]}", case)]
        return []
    finally:
        shutil.rmtree(work, ignore_errors=True)


def cli_part(acc: Acc, tier, shard, nshards):
    ents = [e for e in entries() if e[4] is not None and any(c[0][0] == "map" for c in chains(e[0], 3))]
    step = 9 if tier == "quick" else 1
    for i, (t, k, ai, meta, rep) in enumerate(ents):
        if i % step or (i // step) % nshards != shard:
            continue
        chain = [c for c in chains(t, 3) if c[0][0] == "map"][0]
        text = render.render(build_doc(chain, rep)).text
        b = float(meta.get("minVersion", meta.get("maxVersion")))
        for v in (round(b - 0.2, 1), b, round(b + 0.2, 1)):
            acc.evaluations += 1
            acc.nontrivial.add(env.fp(["cli", t, k, v]))
            acc.cls("cli:validate_with_version")
            for dd in cli_case(text, v):
                if not any(x["bucket"] == dd.bucket for x in acc.violations):
                    acc.violations.append({**dd.as_dict(), "search": "cli", "shard": shard, "round": 0, "seed": env.verif_seed(), "tier": tier})


def replay(case):
    if "cli_text" in case:
        return cli_case(case["cli_text"], case["version"])
    if "doc" in case:
        return check_case(case["doc"], case["root"], case["version"], case, validator=env.Workers.get().Validator())
    if "history" in case:
        W = env.Workers.get()
        V = W.Validator()
        ents = {f"{e[0]}.{e[1]}": e for e in entries() if e[4] is not None}
        for h in case["history"]:
            if h[0] == "validate":
                _, which, ek, v, root = h
                t, k, ai, meta, rep = ents[ek]
                text = render.render(build_doc(chains(t, 3)[0], rep)).text
                got = V.validate(W.loads(text), schema_name=root, version=v)
                exp = W.Validator().validate(W.loads(text), schema_name=root, version=v)
                if json.dumps(got, sort_keys=True, default=repr) != json.dumps(exp, sort_keys=True, default=repr):
                    return [Discrepancy("history:validate", f"{h}: differs from fresh Validator", case)]
            elif h[0] == "get_versioned_schema":
                a = json.dumps(V.get_versioned_schema(h[1], h[2]), sort_keys=True, default=repr)
                b = json.dumps(W.Validator().get_versioned_schema(h[1], h[2]), sort_keys=True, default=repr)
                if a != b:
                    return [Discrepancy("history:get_versioned_schema", f"{h}: differs from fresh Validator", case)]
            elif h[0] == "get_expanded_schema":
                a = json.dumps(V.get_expanded_schema(h[1], h[2]), sort_keys=True, default=repr)
                if h[2] is None:
                    b = json.dumps(W.Validator().get_expanded_schema(h[1], None), sort_keys=True, default=repr)
                    if a != b:
                        return [Discrepancy("history:get_expanded_schema", f"{h}: differs from fresh Validator", case)]
    return []
