"""C05 - surface syntax does not change meaning.

(a) one model, two renderings (canonical / drawn surface): loads(a) == loads(b) exactly.
(b) corpus files: the whitespace in front of every keyword whose position
    include_position reports is replaced by a drawn separator and the keyword's
    letter case is redrawn; loads must give the same dictionary."""
from __future__ import annotations

import os
import re

from .. import corpus, env, model, refdict, render
from ..harness import Acc, Discrepancy, hyp_each, hyp_search

ID = "C05"
RULE = ("(a) Hypothesis draws a document model and a surface (per-token keyword case, separators from spaces / tabs / form "
        "feed / LF / CRLF / blank lines / # comments / C comments, quote style per string, bare-vs-quoted for bare-word "
        "strings); canonical and surface renderings must load to exactly equal dictionaries. (b) each corpus file is "
        "perturbed at the gaps in front of the keywords reported by include_position (new separator, new keyword case). "
        "Non-trivial: the two texts differ in >= 3 of {keyword case, line structure, comment, quote style, bare word, "
        "CRLF/tab/form feed}. Distinct = fingerprint of (model, surface text) / (file, perturbation).")
ASSUMPTIONS = [
    "separators are only placed between MapServer-level tokens; a # comment is always followed by a line break",
    "value words keep their spelling in both renderings (only keywords, END, TRUE/FALSE change case)",
    "corpus: a gap that contained a line break keeps everything up to its first line break (it may terminate a # comment)",
]
TIERS = {
    "quick": {"examples": 16000, "perturb": 4, "budget_s": 100},
    "thorough": {"examples": 150000, "perturb": 40, "budget_s": 1500},
}
PARTS = ["corpus_part", "search"]


def bucket_of(stage, loc, msg):
    key = re.sub(r"\[\d+\]", "", loc).split("/")[-1] if loc else ""
    return f"{stage}:{key}:{re.sub(r'[0-9]+', 'N', msg)[:30]}"


def compare_texts(a, b, case):
    W = env.Workers.get()
    try:
        da = W.loads(a)
    except Exception as e:
        return [Discrepancy(f"load_a:{type(e).__name__}", f"reference text rejected: {type(e).__name__}: {str(e)[:160]}", case)]
    try:
        db = W.loads(b)
    except Exception as e:
        tok = getattr(getattr(e, "token", None), "type", "")
        ch = getattr(e, "char", "")
        return [Discrepancy(f"load_b:{type(e).__name__}:{tok}{ch}", f"equivalent text rejected: {type(e).__name__}: {str(e)[:160]}", case)]
    for loc, msg in refdict.equal_dicts(da, db):
        return [Discrepancy(bucket_of("meaning", loc, msg), f"at {loc}: {msg}", case)]
    return []


def features(st_):
    f = set()
    for k in st_:
        if k.startswith("kwcase:"):
            f.add("kwcase")
        elif k in ("sep:linebreak",):
            f.add("lines")
        elif k in ("sep:hash_comment", "sep:c_comment"):
            f.add("comment")
        elif k == "quote:single":
            f.add("quote")
        elif k == "bare_word":
            f.add("bare")
        elif k in ("sep:crlf", "sep:tab", "sep:formfeed"):
            f.add("ws_kind")
    return f


def search(acc: Acc, tier, shard, nshards):
    n = TIERS[tier]["examples"] // nshards
    prof = model.Profile(max_depth=4, max_items=7)

    def body(data):
        ch = model.Ch(data.draw)
        st_ = {}
        doc = model.any_document(model.Gen(ch, prof, st_))
        a = render.render(doc).text
        sst = {}
        toks = render.tokens(doc, render.Surface(ch, stats=sst))
        b = render.layout(toks, render.Surface(ch, stats=sst)).text
        f = features(sst)
        acc.case([doc, b], len(f) >= 3, sample={"canonical": a[:600], "surface": b[:900]} if len(a) > 80 else None)
        for k, v in sst.items():
            acc.cls(k, v)
        _special_classes(acc, toks)
        return compare_texts(a, b, {"a": a, "b": b, "doc": doc})

    hyp_search(acc, ID, "documents", shard, n, body, tier)


def _special_classes(acc, toks):
    for i, t in enumerate(toks[:-1]):
        low = t.text.lower()
        if t.role in ("key", "open") and low in ("symbol", "style", "grid", "name"):
            nxt = toks[i + 1]
            if t.text != t.text.upper() and nxt.kind in ("bare", "word"):
                acc.cls("special:lowercase_%s_before_bare_word" % low)
            if nxt.line is not None and nxt.line != t.line:
                acc.cls("special:linebreak_after_%s" % low)


SEP_WS = [" ", "  ", "\t", "\n", "\r\n", "\n\n", " \f ", "\n\t", "    "]


def draw_edits(text, positions, ch, stats):
    """One edit per usable gap: (index into positions, kept prefix of the gap, new separator, new keyword spelling)."""
    edits = []
    last = 0
    for idx, (off, kw) in enumerate(positions):
        g = off
        while g > last and text[g - 1] in " \t\r\n\f":
            g -= 1
        if g == off or g < last:
            continue
        gap = text[g:off]
        keep = gap[: gap.index("\n") + 1] if "\n" in gap else ""
        m = ch.int(0, 9)
        if m <= 6:
            sep = ch.choice(SEP_WS)
        elif m <= 8:
            sep = " # " + ch.choice(render.COMMENT_TEXTS) + "\n"
            stats["comment"] = stats.get("comment", 0) + 1
        else:
            sep = " /* " + ch.choice(["c", "x\ny", " END "]) + " */ "
            stats["comment"] = stats.get("comment", 0) + 1
        if g == 0 and not keep and sep.strip() == "":
            sep = ""
        word = text[off:off + len(kw)]
        cm = ch.int(0, 2)
        neww = word.upper() if cm == 0 else word.lower() if cm == 1 else word.capitalize()
        if neww != word:
            stats["kwcase"] = stats.get("kwcase", 0) + 1
        edits.append([idx, g, keep + sep, neww])
        stats["gaps"] = stats.get("gaps", 0) + 1
        if "\n" in sep or "\n" in keep:
            stats["lines"] = stats.get("lines", 0) + 1
        last = off + len(kw)
    return edits


def apply_edits(text, positions, edits):
    out = []
    last = 0
    for idx, g, sep, neww in edits:
        off, kw = positions[idx]
        out.append(text[last:g] + sep + neww)
        last = off + len(kw)
    out.append(text[last:])
    return "".join(out)


def keyword_positions(text, d):
    """(offset, keyword) for every object opener / keyword whose recorded position really
    starts with that keyword in the text (anything else would be C08's finding)."""
    line_off = [0]
    for i, c in enumerate(text):
        if c == "\n":
            line_off.append(i + 1)
    found = []

    def at(pos, kw):
        if not isinstance(pos, dict) or "line" not in pos:
            return
        ln, col = pos["line"], pos["column"]
        if not (1 <= ln <= len(line_off)):
            return
        off = line_off[ln - 1] + col - 1
        if text[off:off + len(kw)].lower() == kw.lower():
            found.append((off, kw))

    def walk(o):
        if isinstance(o, dict):
            pd = o.get("__position__")
            t = o.get("__type__")
            if isinstance(pd, dict) and t and t != "symbolset":
                at(pd, t)
                for k, v in pd.items():
                    if k in ("line", "column", "values"):
                        continue
                    if isinstance(v, dict) and "line" in v:
                        at(v, k)
                    elif isinstance(v, list):
                        for p in v:
                            at(p, k)
                    elif isinstance(v, dict):  # config sub-keys
                        for p in v.values():
                            at(p, "config")
            for v in o.values():
                walk(v)
        elif isinstance(o, list):
            for v in o:
                walk(v)

    walk(d)
    found = sorted(set(found))
    return found


def corpus_part(acc: Acc, tier, shard, nshards):
    """Per file: k perturbations.  A large file has thousands of gaps, more choices than one
    Hypothesis example may hold, so the per-gap choices come from a random.Random seeded
    with one Hypothesis-drawn integer (a pure function of that draw); a failing perturbation is then
    minimised here by trying each of its edits alone."""
    from hypothesis import strategies as st

    k = TIERS[tier]["perturb"]
    items = list(corpus.load_all(shard, nshards, acc, position=True))

    def make_body(item):
        p, text, d = item
        pos = keyword_positions(text, d)

        def body(data):
            ch = model.RandCh(data.draw(st.integers(0, 2 ** 32 - 1)))
            st_ = {}
            edits = draw_edits(text, pos, ch, st_)
            b = apply_edits(text, pos, edits)
            nf = sum(1 for x in ("comment", "kwcase", "lines") if st_.get(x))
            acc.case([corpus.rel(p), b], nf >= 2 and st_.get("gaps", 0) >= 3,
                     sample={"file": corpus.rel(p), "perturbed_head": b[:500]})
            acc.cls("corpus_gaps", st_.get("gaps", 0))
            acc.cls("corpus_perturbations")
            ds = compare_texts(text, b, {"file": corpus.rel(p), "b": b})
            if ds:
                for e in edits:  # minimise: one edit alone
                    b1 = apply_edits(text, pos, [e])
                    ds1 = compare_texts(text, b1, {"file": corpus.rel(p), "b": b1, "edit": e})
                    if ds1:
                        return ds1
            return ds

        return body

    hyp_each(acc, ID, "corpus", shard, items, k, make_body, tier, key=lambda it: corpus.rel(it[0]))


def replay(case):
    a = case.get("a")
    if a is None:
        a = corpus.read(os.path.join(env.REPO, case["file"]))
    return compare_texts(a, case["b"], case)
