"""C08 - recorded positions and validation error locations are exact."""
from __future__ import annotations

import copy

from .. import env, faults, model, refdict, render, vocab
from ..harness import Acc, Discrepancy, hyp_search

ID = "C08"
RULE = ("Hypothesis draws a document model and a surface (several keywords per line, values spread over lines, tabs, CRLF, form "
        "feeds, # and C comments, multi-line strings); the renderer records the 1-based line and column of every token it writes. "
        "loads(text, include_position=True): every object's __position__ equals its opener's position, every keyword entry equals "
        "the keyword token's position (repeated keywords: list aligned with occurrences; CONFIG: per lower-cased sub-key; POINTS: "
        "one entry or a list; key-value blocks: the block keyword and all key/value token positions in order), value positions "
        "are exact for single-token atoms and inside the atom's span for bindings / expressions / lists, in source order. Then "
        "faults are injected into valid documents and every validation message must carry the line and column of the offending "
        "keyword, or of the enclosing block's opener for object-level errors. Non-trivial: >= 2 keywords on one line, or a value "
        "on another line than its keyword, or CRLF / tab / multi-line string before a checked token. Distinct = (model, text).")
ASSUMPTIONS = [
    "include-free text; Lark's convention: only LF starts a new line, every other character (CR, tab, form feed) advances the column by one",
    "a keyword given twice keeps the position of its last occurrence (it keeps its last value)",
]
TIERS = {
    "quick": {"examples": 8000, "faults": 5000, "budget_s": 110},
    "thorough": {"examples": 100000, "faults": 30000, "budget_s": 1800},
}
PARTS = ["search", "chains_part"]


def end_pos(tok):
    return render.advance(tok.line, tok.col, tok.text)


def within(pos, tok):
    l, c = pos
    el, ec = end_pos(tok)
    return (tok.line, tok.col) <= (l, c) < (el, ec)


def expected_index(doc, toks):
    """model path -> {'open': Tok, 'items': {item index: {'key': Tok, 'vals': [Tok], 'end': Tok}}}"""
    idx = {}
    for t in toks:
        e = idx.setdefault(tuple(t.path), {"open": None, "items": {}})
        if t.role == "open":
            e["open"] = t
        elif t.role in ("key", "val", "blockend"):
            it = e["items"].setdefault(t.item, {"key": None, "vals": [], "end": None})
            if t.role == "key":
                it["key"] = t
            elif t.role == "val":
                it["vals"].append(t)
            else:
                it["end"] = t
    return idx


def pos_of(pd):
    return (pd.get("line"), pd.get("column"))


def check_values(pd, vals, what, out, exact_only=False):
    got = [tuple(v) for v in pd.get("values", [])]
    if len(got) != len(vals):
        out.append((what + ":values_count", f"{what}: {len(got)} value positions recorded for {len(vals)} value tokens ({got})"))
        return
    prev = None
    for g, t in zip(got, vals):
        # the statement promises that value positions follow in source order: each recorded position must lie
        # inside the span of its own value token (so it is after the keyword and before the next value)
        if not within(g, t):
            out.append((what + ":value_span", f"{what}: value {t.text!r:.30} spans from {t.line}:{t.col} but recorded at {g[0]}:{g[1]}"))
        if prev is not None and g < prev:
            out.append((what + ":value_order", f"{what}: value positions not in source order: {got}"))
        prev = g


def check_positions(doc, rendered, d):
    """-> list of (bucket, message)"""
    out = []
    idx = expected_index(doc, rendered.tokens)
    roots = d if isinstance(d, list) else [d]
    if len(roots) != len(doc):
        return [("roots", "number of roots differs")]

    def obj(o, dd, mpath):
        e = idx[mpath]
        t = o["t"]
        pd = dd.get("__position__")
        if not isinstance(pd, dict):
            out.append((f"{t}:no_position", f"{t} object has no __position__"))
            return
        if t != "symbolset" and pos_of(pd) != (e["open"].line, e["open"].col):
            out.append((f"object:{t}", f"{t.upper()} opens at {e['open'].line}:{e['open'].col} but __position__ says {pos_of(pd)}"))
        if "kvroot" in o:
            vals = [x for x in rendered.tokens if tuple(x.path) == mpath and x.role == "val"]
            check_values(pd, vals, f"kvroot:{t}", out)
            return
        # group the items of the model the way the dictionary groups them
        last_attr, reps, configs, points, kvs, projs, patterns = {}, {}, {}, [], {}, {}, {}
        child_n = {}
        for i, it in enumerate(o["items"]):
            k = it[0]
            if k == "attr":
                last_attr[it[1]] = i
            elif k == "rep":
                reps.setdefault(it[1], []).append(i)
            elif k == "config":
                configs[it[1].lower()] = i
            elif k == "pairs":
                if it[1] == "points":
                    points.append(i)
                else:
                    patterns[it[1]] = i
            elif k == "kv":
                kvs[it[1]] = i
            elif k == "proj":
                projs["projection"] = i
            elif k == "obj":
                ct = it[1]["t"]
                if ct in model.SINGLETON:
                    child_n[ct] = i  # last wins
                else:
                    child_n.setdefault(refdict.plural(ct), []).append(i)
        for key, i in list(last_attr.items()) + list(patterns.items()) + list(projs.items()):
            p = pd.get(key)
            tk = e["items"][i]["key"]
            if not isinstance(p, dict):
                out.append((f"keyword:{t}.{key}:missing", f"{t}.{key}: no position entry"))
                continue
            if pos_of(p) != (tk.line, tk.col):
                out.append((f"keyword:{_shape(o, i)}", f"{t}.{key} keyword is at {tk.line}:{tk.col} but recorded at {pos_of(p)}"))
            if key in last_attr:
                check_values(p, e["items"][i]["vals"], f"values:{_shape(o, i)}", out)
        for key, ii in reps.items():
            p = pd.get(key)
            if not isinstance(p, list) or len(p) != len(ii):
                out.append((f"repeated:{key}:shape", f"{t}.{key}: position list {p!r:.80} does not align with {len(ii)} occurrences"))
                continue
            for pp, i in zip(p, ii):
                tk = e["items"][i]["key"]
                if pos_of(pp) != (tk.line, tk.col):
                    out.append((f"repeated:{key}", f"{t}.{key} occurrence at {tk.line}:{tk.col} recorded at {pos_of(pp)}"))
                check_values(pp, e["items"][i]["vals"], f"values:repeated", out)
        if configs:
            p = pd.get("config")
            if not isinstance(p, dict) or sorted(p.keys()) != sorted(configs.keys()):
                out.append(("config:keys", f"config positions {list(p.keys()) if isinstance(p, dict) else p} vs sub-keys {sorted(configs)}"))
            else:
                for sk, i in configs.items():
                    tk = e["items"][i]["key"]
                    if pos_of(p[sk]) != (tk.line, tk.col):
                        out.append(("config:pos", f"CONFIG {sk} at {tk.line}:{tk.col} recorded at {pos_of(p[sk])}"))
        if points:
            p = pd.get("points")
            if len(points) == 1:
                tk = e["items"][points[0]]["key"]
                if not isinstance(p, dict) or pos_of(p) != (tk.line, tk.col):
                    out.append(("points:pos", f"POINTS at {tk.line}:{tk.col} recorded as {p!r:.80}"))
            else:
                if not isinstance(p, list) or len(p) != len(points):
                    out.append(("points:list", f"{len(points)} POINTS blocks but positions {p!r:.80}"))
                else:
                    for pp, i in zip(p, points):
                        tk = e["items"][i]["key"]
                        if pos_of(pp) != (tk.line, tk.col):
                            out.append(("points:pos", f"POINTS at {tk.line}:{tk.col} recorded at {pos_of(pp)}"))
        for key, i in kvs.items():
            sub = dd.get(key)
            p = sub.get("__position__") if isinstance(sub, dict) else None
            tk = e["items"][i]["key"]
            if not isinstance(p, dict) or pos_of(p) != (tk.line, tk.col):
                out.append((f"kv:{key}", f"{key.upper()} block at {tk.line}:{tk.col} recorded as {p!r:.80}"))
            else:
                check_values(p, e["items"][i]["vals"], f"kvvalues:{key}", out)
        for key, ref in child_n.items():
            if isinstance(ref, list):
                lst = dd.get(key, [])
                if len(lst) != len(ref):
                    out.append((f"children:{key}", "child list length differs"))
                    continue
                for c, i in zip(lst, ref):
                    obj(o["items"][i][1], c, mpath + (i,))
            else:
                obj(o["items"][ref][1], dd.get(key), mpath + (ref,))

    for ri, (o, dd) in enumerate(zip(doc, roots)):
        obj(o, dd, (ri,))
    return out


def _shape(o, i):
    it = o["items"][i]
    return f"{it[2] if it[0] == 'attr' else it[0]}"


def layout_features(rendered):
    f = set()
    by_line = {}
    for t in rendered.tokens:
        if t.role in ("key", "open"):
            by_line[t.line] = by_line.get(t.line, 0) + 1
    if any(v >= 2 for v in by_line.values()):
        f.add("several_keywords_per_line")
    last_key = None
    for t in rendered.tokens:
        if t.role == "key":
            last_key = t
        elif t.role == "val" and last_key is not None and t.line != last_key.line:
            f.add("value_on_other_line")
    txt = rendered.text
    if "\r\n" in txt:
        f.add("crlf")
    if "\t" in txt:
        f.add("tab")
    if any("\n" in t.text for t in rendered.tokens):
        f.add("multiline_string")
    if "/*" in txt or "#" in txt:
        f.add("comment")
    return f


def search(acc: Acc, tier, shard, nshards):
    cfg = TIERS[tier]
    W = env.Workers.get()
    prof = model.Profile(max_depth=4, max_items=7, includes=True)
    counter = {"i": 0}

    def body(data):
        ch = model.Ch(data.draw)
        counter["i"] += 1
        doc = model.any_document(model.Gen(ch, prof))
        surf = render.Surface(ch, numbers=True) if not ch.chance(1, 6) else None
        r = render.render(doc, surf)
        case = {"doc": doc, "text": r.text}
        try:
            if ch.chance(1, 50):
                import mappyfile

                d = mappyfile.loads(r.text, include_position=True, expand_includes=False)
            else:
                d = W.loads(r.text, position=True)
        except Exception as e:
            return [Discrepancy(f"load:{type(e).__name__}", f"document rejected: {e!s:.120}", case)]
        f = layout_features(r)
        nt = bool(f & {"several_keywords_per_line", "value_on_other_line"}) or bool(f & {"crlf", "tab", "multiline_string"})
        acc.case([doc, r.text], nt, sample={"text": r.text[:500]} if 100 < len(r.text) < 500 else None)
        for x in f:
            acc.cls("layout:" + x)
        return [Discrepancy(b, m, case) for b, m in check_positions(doc, r, d)[:1]]

    hyp_search(acc, ID, "positions", shard, cfg["examples"] // nshards, body, tier)

    vprof = faults.valid_profile()

    def body_faults(data):
        from .c07 import ROOT_WEIGHTED

        ch = model.Ch(data.draw)
        p = copy.copy(vprof)
        p.roots = [ch.choice(ROOT_WEIGHTED)]
        doc = model.Gen(ch, p).document()
        surf = render.Surface(ch) if ch.chance(2, 3) else None
        r = render.render(doc, surf)
        try:
            d = W.loads(r.text, position=True)
        except Exception as e:
            return [Discrepancy(f"load:{type(e).__name__}", f"valid document rejected: {e!s:.120}", {"text": r.text})]
        sites = faults.object_sites(doc)
        allc = [(s, c) for s in sites for c in faults.candidate_faults(s[1])]
        kind = ch.choice(faults.FAULT_KINDS)
        pool = [sc for sc in allc if sc[1][2] == kind] or allc
        deep = [sc for sc in pool if len(sc[0][2]) >= 1]
        site, cand = ch.choice(deep if (deep and ch.chance(3, 4)) else pool)
        if cand[2] == "repeated_item":
            # every occurrence of a repeatable keyword has a value and a position of its own (also when two occurrences
            # are written alike): without that the message for one occurrence cannot point at it
            o_ = faults.find(d, site[2])
            vals, pos = o_.get(cand[1]), o_.get("__position__", {}).get(cand[1])
            if not isinstance(vals, list) or len(vals) != len(cand[0]) or not isinstance(pos, list) or len(pos) != len(cand[0]):
                return [Discrepancy("repeated_keyword_occurrences", f"{cand[1].upper()} is written {len(cand[0])} times but holds {vals!r:.80} with positions {pos!r:.80}",
                                    {"doc": doc, "text": r.text, "fault": {"kind": "repeated_item", "dpath": list(site[2]), "key": cand[1]}})]
        f = faults.apply_fault(ch, d, site, cand)
        if f is None:
            acc.excl("fault_not_invalid_or_inapplicable")
            return []
        return check_fault_position(doc, r, d, f, acc)

    hyp_search(acc, ID, "fault_locations", shard, cfg["faults"] // nshards, body_faults, tier)

    def body_points(data):
        """a SYMBOL with several POINTS blocks (multipart points are a FEATURE thing: every pair of every block is a
        schema error) - each message must carry the position of the POINTS keyword of the block the pair is in"""
        ch = model.Ch(data.draw)
        g = model.Gen(ch, vprof)
        sym = {"t": "symbol", "items": [["attr", "name", "str", "s"]]}
        for _ in range(ch.int(2, 4)):
            sym["items"].insert(ch.int(0, len(sym["items"])), ["pairs", "points", g.pairs(1, 3)])
        kind = ch.choice(["root", "map", "symbolset"])
        doc = [sym] if kind == "root" else [{"t": kind, "items": [["obj", {"t": "symbol", "items": []}], ["obj", sym]]}]
        r = render.render(doc, render.Surface(ch) if ch.chance(2, 3) else None)
        try:
            d = W.loads(r.text, position=True)
        except Exception as e:
            return [Discrepancy(f"load:{type(e).__name__}", f"document rejected: {e!s:.120}", {"text": r.text})]
        case = {"doc": doc, "text": r.text, "fault": {"kind": "repeated_points", "dpath": [], "key": "points"}}
        acc.case([doc, r.text], True, sample={"text": r.text[:400]} if len(acc.samples) < 3 else None)
        acc.cls("fault:repeated_points")
        return check_repeated_points(doc, r, d, case)

    hyp_search(acc, ID, "repeated_points", shard, max(20, cfg["faults"] // nshards // 5), body_points, tier)


def check_repeated_points(doc, r, d, case):
    import collections

    W = env.Workers.get()
    root = doc[0]["t"]
    try:
        msgs = W.validator().validate(d, schema_name=root)
    except Exception as ex:
        return [Discrepancy(f"raises:{type(ex).__name__}:repeated_points", f"validate raised {type(ex).__name__}: {ex!s:.100}", case)]
    # expected: one message per pair, at the position of the POINTS keyword of its block
    exp = collections.Counter()
    for t in r.tokens:
        pass
    idx = expected_index(doc, r.tokens)
    for mpath, e in idx.items():
        o = doc[0]
        for i in mpath[1:]:
            o = o["items"][i][1]
        blocks = [(i, it) for i, it in enumerate(o["items"]) if it[0] == "pairs" and it[1] == "points"]
        if o["t"] == "symbol" and len(blocks) >= 2:
            for i, it in blocks:
                tk = e["items"][i]["key"]
                exp[(tk.line, tk.col)] += len(it[2])
    got = collections.Counter((m.get("line"), m.get("column")) for m in msgs if m["message"].endswith(" POINTS"))
    if got != exp:
        return [Discrepancy("location:repeated_points", f"messages for the pairs of repeated POINTS blocks carry positions {dict(got)}, the blocks' POINTS keywords are at {dict(exp)} (one message per pair)", case)]
    return []


def check_fault_position(doc, r, d, f, acc=None):
    W = env.Workers.get()
    root = doc[0]["t"]
    case = {"doc": doc, "text": r.text, "fault": f}
    idx = expected_index(doc, r.tokens)
    e = idx[tuple(f["mpath"])]
    if f["object_level"]:
        tk = e["open"]
    else:
        tk = e["items"][f["item"]]["key"]
    try:
        msgs = W.validator().validate(d, schema_name=root)
    except Exception as ex:
        return [Discrepancy(f"raises:{type(ex).__name__}:{f['kind']}", f"validate raised {type(ex).__name__}: {ex!s:.100}", case)]
    mine = [m for m in msgs if m["message"].endswith(" " + f["name"])]
    if acc is not None:
        child_kind = "root" if not f["dpath"] else ("list_child" if isinstance(f["dpath"][-1], int) else "singleton_child")
        acc.case([doc, f["kind"], f["dpath"], f["key"]], True, sample={"text": r.text[:400], "fault": {k: f[k] for k in ("kind", "dpath", "key")}} if len(r.text) < 400 else None)
        acc.cls("fault:" + f["kind"])
        acc.cls("fault_site:" + child_kind)
    if not mine:
        return [Discrepancy(f"no_message:{f['kind']}", f"no message names {f['name']} for fault {f['kind']} at {f['dpath']}: {[m['message'] for m in msgs]}", case)]
    for m in mine:
        if (m.get("line"), m.get("column")) != (tk.line, tk.col):
            where = "singleton_child" if f["dpath"] and not isinstance(f["dpath"][-1], int) else ("list_child" if f["dpath"] else "root")
            return [Discrepancy(f"location:{'object' if f['object_level'] else 'keyword'}:{where}",
                                f"{f['kind']} fault at {f['dpath']} ({f['name']}): message carries {m.get('line')}:{m.get('column')}, "
                                f"the {'block opener' if f['object_level'] else 'keyword'} is at {tk.line}:{tk.col}", case)]
    return []


def chains_part(acc: Acc, tier, shard, nshards):
    """Object-level faults at every place a block can stand: for each block type and each chain of parents (up to three
    levels, through singleton children and list members alike) a minimal valid document with an unknown keyword planted
    in the innermost block; the message must carry the position of that block's own opening keyword. Exhaustive."""
    from . import c09

    W = env.Workers.get()
    idx = 0
    for t in vocab.OBJ_TYPES:
        for chain in c09.chains(t, 3):
            idx += 1
            if idx % nshards != shard:
                continue
            doc = c09.build_doc(chain, [])
            for surf_seed in (None, 1):
                r = render.render(doc, render.Surface(model.RandCh(idx), comments=False) if surf_seed else None)
                try:
                    d = W.loads(r.text, position=True)
                except Exception as e:
                    acc.violations.append({"bucket": f"load:{type(e).__name__}", "message": f"minimal document rejected: {e!s:.120}", "case": {"text": r.text},
                                           "search": "chains", "shard": shard, "round": 0, "seed": env.verif_seed(), "tier": tier})
                    continue
                site = faults.object_sites(doc)[-1]
                f = faults.apply_fault(model.RandCh(idx), d, site, (None, None, "unknown_keyword"))
                if f is None:
                    acc.excl("chains:fault_not_applicable")
                    continue
                acc.exhaustive_cases += 1
                acc.cls("chain_depth:%d" % len(chain))
                for dd in check_fault_position(doc, r, d, f, acc):
                    if not any(v["bucket"] == dd.bucket for v in acc.violations):
                        acc.violations.append({**dd.as_dict(), "search": "chains", "shard": shard, "round": 0, "seed": env.verif_seed(), "tier": tier})


def replay(case):
    from ..render import Rendered, Tok

    W = env.Workers.get()
    doc, text = case["doc"], case["text"]
    # re-derive token positions by rendering canonically is not possible for a drawn surface:
    # positions are recomputed by locating each token of the canonical token list in the saved text
    r = relocate(doc, text)
    d = W.loads(text, position=True)
    if "fault" in case:
        f = case["fault"]
        o = faults.find(d, f["dpath"])
        if f["kind"] == "unknown_keyword":
            o[f["key"]] = 1
        elif f["kind"] == "missing_required":
            o.pop(f["key"], None)
        elif f["kind"] == "repeated_item" and "occurrence" not in f:
            # the occurrences check: one value and one position per written occurrence
            n = sum(1 for _, ob in model.walk(doc[0]) for it in ob["items"] if it[0] == "rep" and it[1] == f["key"]) if len(f["dpath"]) == 0 else None
            site = next(s_ for s_ in faults.object_sites(doc) if list(s_[2]) == list(f["dpath"]))
            n = sum(1 for it in site[1]["items"] if it[0] == "rep" and it[1] == f["key"])
            vals, pos = o.get(f["key"]), o.get("__position__", {}).get(f["key"])
            if not isinstance(vals, list) or len(vals) != n or not isinstance(pos, list) or len(pos) != n:
                return [Discrepancy("repeated_keyword_occurrences", f"{f['key'].upper()} is written {n} times but holds {vals!r:.80} with positions {pos!r:.80}", case)]
            return []
        elif f["kind"] == "repeated_item":
            o[f["key"]][f["occurrence"]] = eval(f["value"], {"__builtins__": {}}, {"inf": float("inf"), "nan": float("nan")})
        elif f["kind"] == "repeated_points":
            return check_repeated_points(doc, r, d, case)
        else:
            o[f["key"]] = eval(f["value"], {"__builtins__": {}}, {"inf": float("inf"), "nan": float("nan")})
        return check_fault_position(doc, r, d, f)
    return [Discrepancy(b, m, case) for b, m in check_positions(doc, r, d)[:1]]


def relocate(doc, text):
    """Find the tokens of the model in a saved text (case-insensitively, in order, skipping comments)."""
    from .. import reader

    toks = render.tokens(doc, render.Canonical())
    rt = [t for t in reader.tokenize(text) if t.cls != "C"]
    # the reader splits "[a] 2" etc. the same way the renderer emits atoms; numbers/words align 1:1
    if len(rt) != len(toks):
        raise ValueError(f"cannot relocate tokens for replay: {len(rt)} vs {len(toks)}")
    for t, r_ in zip(toks, rt):
        t.line, t.col, t.text = r_.line, r_.col, r_.raw
    return render.Rendered(text, toks)
