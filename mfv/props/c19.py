"""C19 - grammar, keyword tables and schemas describe one vocabulary (exhaustive).

The finite product (block type x parent context x schema property x position x value
alternative x representative value) is enumerated completely.  Each case is a small
document *model*; the independent renderer writes it the MapServer way and the
reference dictionary says what loads must return."""
from __future__ import annotations

import copy
import json
import logging
import os

from .. import env, model, refdict, render, vocab
from ..harness import Acc, Discrepancy, open_ids
from .c01 import licence_walk

ID = "C19"
RULE = ("Exhaustive: for each of the 19 block types + SYMBOLSET x parent context (root, and nested in every parent whose schema "
        "admits it) x every schema property x position {only, first, middle, last} among filler keywords x every value "
        "alternative x representatives (every enum member, both booleans, numbers at the bounds, each colour / pair / binding / "
        "expression / regex / block shape) one minimal document is rendered and checked: loads gives the reference dictionary "
        "(value in that object, block under the key and list/singleton shape the parent's schema declares), dumps emits no "
        "'not found in the JSON schema' log record, loads(dumps(d)) == d up to C01's licences, validation returns no message "
        "other than a missing required keyword, the auto-creating dict yields a list exactly for array-typed keys. Plus: every "
        "block type the grammar opens has a schema and 'TYPE END' prints and parses at the root; every declared default validates "
        "against its own keyword; create(type, version) prints, re-loads and validates for all schema files x 26 versions (none, 3.8 .. 8.6). "
        "Non-trivial: position is not 'only' or the parent is not the root. Distinct = (parent, type, keyword, alternative, value, position).")
ASSUMPTIONS = [
    "values are written the way MapServer writes them: colour components are ints, hex colours have 3/6/8 digits (4/5/7-digit and float colours: see DESIGN section 5, item 17)",
    "the inline SYMBOL block of STYLE / CLASS is excluded while known finding KF16 is open",
]
TIERS = {
    "quick": {"budget_s": 110, "exhaustive": True, "reps": 1},
    "thorough": {"budget_s": 1500, "exhaustive": True, "reps": 3},
}
PARTS = ["slots_part", "tables_part", "interleave_part"]
# no version, and every MapServer version from below the oldest to above the newest boundary named in a schema
# (minVersion / maxVersion values run from 4.0 to 8.2), in the 0.2 steps MapServer releases use
VERSIONS = [None] + [round(3.8 + 0.2 * i, 1) for i in range(25)]
_REPLAY = {"on": False}


def kf_open():
    return set() if _REPLAY["on"] else open_ids()


def rep_values(type_, slot, alt, reps):
    """Representative model items for one alternative: list of item-lists (one keyword occurrence each)."""
    k, sh = slot.key, alt.shape
    A = lambda cls, v: [["attr", k, cls, v]]
    if sh == "object":
        return [[["obj", {"t": alt.arg, "items": []}]]]
    if sh == "objlist":
        one = [["obj", {"t": alt.arg, "items": []}]]
        two = [["obj", {"t": alt.arg, "items": []}], ["obj", {"t": alt.arg, "items": []}]]
        mx = alt.node.get("maxItems")
        return [one] if (mx == 1 or reps == 1) else [one, two]
    if sh == "kv":
        return [[["kv", alt.arg, [["wms_title", "x"], ["K2", "y z"]]]]]
    if sh == "kvinline":
        if k == "config":
            return [[["config", "MS_ERRORFILE", "stderr"]], [["config", "ON_MISSING_DATA", "IGNORE"], ["config", "proj_lib", "/x"]]]
        return [[["kv", k, [["default", "5"], ["100", "x"]]]]]
    if alt.ref == "projection.json" or k == "projection":
        if sh == "enum":
            return [[["proj", "AUTO"]]]
        return [[["proj", ["init=epsg:4326"]]], [["proj", ["proj=utm", "zone=15"]]]]
    if sh == "points":
        if k in ("points", "pattern"):
            return [[["pairs", k, [[1, 2], [3.5, 4]]]]]
        # a points-typed *keyword* (LABEL BACKGROUNDSHADOWSIZE): MapServer writes two numbers
        return [A("nums", [1, 2])]
    if sh == "pointslist":
        return [[["pairs", "points", [[1, 2]]], ["pairs", "points", [[3, 4], [5, 6]]]]]
    if sh == "strlist":
        v = "x.map" if k == "include" else "BANDS=1"
        return [[["rep", k, v]], [["rep", k, v], ["rep", k, v + "2"]]][: max(1, min(reps, 2))]
    if sh == "string":
        if alt.node.get("maxLength") == 1:
            return [A("str", "a")]
        return [A("str", "abc def")] + ([A("str", "x")] if reps > 1 else [])
    if sh == "strpat":
        p = alt.arg
        return [A("str", "&#10140;" if p.startswith("^&#") else p.strip("^$"))]
    if sh == "enum":
        out = []
        for e in alt.arg:
            if not isinstance(e, str):
                out.append(A("int", e))
            elif e.lower() == "end":
                out.append(A("str", e))
            else:
                out.append(A("enum", e.upper()))
                if reps > 1:
                    out.append(A("enum", e.lower()))
        return out
    if sh in ("integer", "number"):
        lo, hi, lx, hx = alt.bounds()
        vals = []
        base = lo if lo is not None else (min(hi, 1) if hi is not None else 1)
        v = base + (1 if lx else 0)
        if hi is not None and (v > hi or (hx and v >= hi)):
            v = (lo + hi) / 2 if lo is not None else hi - 1
        v = int(v) if float(v).is_integer() else v
        vals.append(v)
        if hi is not None and reps > 1:
            h = hi - (1 if hx else 0)
            vals.append(int(h) if float(h).is_integer() else h)
        if sh == "number" and (hi is None or v + 0.5 < hi):
            vals.append(v + 0.5)
        return [A("int" if isinstance(x, int) else "float", x) for x in dict.fromkeys(vals)]
    if sh == "boolean":
        return [A("bool", True), A("bool", False)]
    if sh == "numlist":
        n = alt.arg or 2
        it = alt.node["items"]
        lo, hi, lx, hx = alt.bounds(it)
        if n == 3 and hi == 255:
            out = [A("nums", [0, 128, 255])]
            if lo == -1:
                out.append(A("nums", [-1, -1, -1]))
            return out
        if n == 6:
            return [A("nums", [0, 0, 0, 255, 255, 255])]
        base = lo if lo is not None else 1
        base = base + 1 if lx else base
        vals = [int(base) + i for i in range(n)]
        out = [A("nums", vals)]
        if it.get("type") == "number" and reps > 1:
            out.append(A("nums", [x + 0.5 for x in vals]))
        return out
    if sh == "anchor":
        return [A("nums", [0.5, 0.5])]
    if sh == "hex":
        return [A("hex", "#ff0000"), A("hex", "#ABC"), A("hex", "#ff000080")]
    if sh == "bind":
        return [A("bind", "[item]")]
    if sh == "expr":
        t1 = ["cmp", "=", ["atom", "[a]"], ["atom", "1"]]
        t2 = ["bin", "*", ["atom", "[a]"], ["atom", "2"]]
        return [A("expr", {"tree": t1, "src": "([a] = 1)"}), A("expr", {"tree": t2, "src": "([a] * 2)"})]
    if sh == "regex":
        return [A("regex", "/abc/")]
    if sh == "hexpair":
        return [A("hexpair", ["#ff0000", "#00FF00"])]
    if sh == "bindpair":
        return [A("binds", ["[a]", "[b]"])]
    if sh == "mixedpair":
        return [A("mixed", [1, "[b]"])]
    if sh == "offsetpair":
        return [A("nums", [1, 2]), A("binds", ["[a]", "[b]"]), A("mixed", ["[a]", 2]), A("mixed", [1, "[b]"])]
    return None


def fillers(type_, key):
    """two simple filler keywords of the same object, different from `key` (any simple value shape will do)"""
    out = []
    for k, sl in vocab.slots(type_).items():
        if k == key or k in ("include", "symbol", "style", "type", "backgroundshadowsize"):
            continue
        a = sl.alts[0]
        if a.shape in ("string", "integer", "number", "boolean", "enum", "numlist", "hex") and not a.node.get("maxLength"):
            vals = rep_values(type_, sl, a, 1)
            if vals and len(vals[0]) == 1 and vals[0][0][0] == "attr" and not (vals[0][0][2] == "str" and a.shape == "enum"):
                out.append(vals[0][0])
        if len(out) == 2:
            break
    return out


def parents_of(type_):
    return [(p, k, lst) for (p, k, c, lst) in vocab.child_edges() if c == type_ and p != "symbolset"]


def enumerate_cases(reps):
    """Yield (case_id tuple, doc model, info)"""
    kf = kf_open()
    for t in vocab.all_types():
        for k, slot in vocab.slots(t).items():
            for ai, alt in enumerate(slot.alts):
                vals = rep_values(t, slot, alt, reps)
                if vals is None:
                    yield ("unrepresented", t, k, ai), None, {"type": t, "key": k, "alt": ai, "shape": alt.shape}
                    continue
                if alt.shape == "object" and alt.arg == "symbol" and t in ("style", "class") and "KF16" in kf:
                    yield ("KF16", t, k, ai), None, {"type": t, "key": k}
                    continue
                if t == "label" and k == "backgroundshadowsize" and "KF12" in kf:
                    yield ("KF12", t, k, ai), None, {"type": t, "key": k}
                    continue
                fl = fillers(t, k)
                for vi, items in enumerate(vals):
                    positions = [("only", items)]
                    if len(fl) >= 1:
                        positions.append(("first", items + [fl[0]]))
                        positions.append(("last", [fl[0]] + items))
                    if len(fl) >= 2:
                        positions.append(("middle", [fl[0]] + items + [fl[1]]))
                    ctxs = [("root", None, None)]
                    if t != "symbolset":
                        ctxs += [("in:" + p, p, pk) for (p, pk, lst) in parents_of(t)
                                 if not (t == "symbol" and p in ("style", "class") and "KF16" in kf)]
                    for pos, its in positions:
                        for cname, parent, pk in ctxs:
                            if parent is not None and pos in ("first", "last") and reps == 1:
                                continue  # quick: nested contexts with 'only' and 'middle'
                            obj = {"t": t, "items": copy.deepcopy(its)}
                            if t == "layer" and not any(i[0] == "attr" and i[1] == "type" for i in obj["items"]):
                                obj["items"].append(["attr", "type", "enum", "POINT"])
                            if parent is None:
                                doc = [obj]
                            else:
                                pobj = {"t": parent, "items": [["obj", obj]]}
                                if parent == "layer":
                                    pobj["items"].append(["attr", "type", "enum", "POINT"])
                                doc = [pobj]
                            yield (cname, t, k, ai, vi, pos), doc, {"type": t, "key": k, "alt": ai, "shape": alt.shape, "parent": parent, "pos": pos}


class LogCatcher(logging.Handler):
    def __init__(self):
        super().__init__(level=logging.ERROR)
        self.records = []

    def emit(self, record):
        self.records.append(record.getMessage())


_catcher = LogCatcher()


def check_case(doc, info, case):
    W = env.Workers.get()
    text = render.render(doc).text
    case = dict(case, text=text)
    t, k = info["type"], info["key"]
    tag = f"{t}.{k}:{info.get('shape')}"
    try:
        d = W.loads(text)
    except Exception as e:
        return [Discrepancy(f"parse:{tag}:{info.get('pos')}", f"{t}.{k} ({info.get('shape')}, position {info.get('pos')}, parent {info.get('parent')}) does not parse: {type(e).__name__}: {e!s:.100}", case)]
    diffs = refdict.compare(refdict.refdict(doc), d)
    if diffs:
        loc, msg = diffs[0]
        return [Discrepancy(f"value:{tag}", f"{t}.{k}: at {loc}: {msg}", case)]
    # printer: schema lookup + round trip
    log = logging.getLogger("mappyfile")
    old = log.level
    _catcher.records.clear()
    log.addHandler(_catcher)
    log.setLevel(logging.ERROR)
    try:
        try:
            out = W.dumps(d)
        finally:
            log.removeHandler(_catcher)
            log.setLevel(old)
    except Exception as e:
        return [Discrepancy(f"print:{tag}", f"{t}.{k}: dumps raised {type(e).__name__}: {e!s:.100}", case)]
    if any("not found in the JSON schema" in r for r in _catcher.records):
        return [Discrepancy(f"lookup:{tag}", f"{t}.{k}: printer's schema lookup failed: {_catcher.records[0]!r:.120}", case)]
    try:
        d2 = W.loads(out)
    except Exception as e:
        return [Discrepancy(f"reprint:{tag}", f"{t}.{k}: printed text does not parse: {out!r:.120}: {e!s:.60}", case)]
    rt = licence_walk(d, d2)
    if rt:
        return [Discrepancy(f"roundtrip:{tag}", f"{t}.{k}: print/parse changed content at {rt[0][0]}: {rt[0][1]}", case)]
    # validation against the root type's schema
    root = doc[0]["t"]
    try:
        msgs = W.validator().validate(d, schema_name=root)
    except Exception as e:
        return [Discrepancy(f"validate_raises:{tag}", f"{t}.{k}: validate raised {type(e).__name__}: {e!s:.100}", case)]
    msgs = [m for m in msgs if "is a required property" not in m.get("error", "")]
    if msgs:
        return [Discrepancy(f"validate:{tag}", f"{t}.{k} written the MapServer way does not validate: {msgs[0].get('error')!s:.160}", case)]
    return []


def slots_part(acc: Acc, tier, shard, nshards):
    reps = TIERS[tier]["reps"]
    for i, (cid, doc, info) in enumerate(enumerate_cases(reps)):
        if i % nshards != shard:
            continue
        if doc is None:
            if cid[0] in ("KF16", "KF12"):
                acc.excl({"KF16": "KF16:inline_symbol_block", "KF12": "KF12:label_backgroundshadowsize"}[cid[0]])
            else:
                acc.excl("unrepresented_shape:" + str(info.get("shape")))
                acc.notes.append(f"no representative for {info}")
            continue
        acc.evaluations += 1
        acc.exhaustive_cases += 1
        if info["pos"] != "only" or info["parent"] is not None:
            acc.nontrivial.add(env.fp(list(cid)))
        acc.cls("shape:" + info["shape"])
        acc.cls("pos:" + info["pos"])
        acc.cls("ctx:" + ("root" if info["parent"] is None else "nested"))
        if len(acc.samples) < 2 and i % 997 == shard:
            acc.samples.append({"case": list(map(str, cid)), "text": render.render(doc).text})
        for dd in check_case(doc, info, {"doc": doc, "info": info}):
            if not any(v["bucket"] == dd.bucket for v in acc.violations):
                acc.violations.append({**dd.as_dict(), "search": "slots", "shard": shard, "round": 0, "seed": env.verif_seed(), "tier": tier})


# ------------------------------------------------------------------ tables, defaults, create

def grammar_block_types():
    """block types opened by the grammar, read from the loaded grammar (not a hand list)"""
    W = env.Workers.get()
    lark = W.parser().lalr
    types = set()
    for r in lark.rules:
        if r.origin.name == "composite_type":
            for sym in r.expansion:
                td = next(t for t in lark.terminals if t.name == sym.name)
                types.add(td.pattern.value.lower())
    return sorted(types)


def tables_part(acc: Acc, tier, shard, nshards):
    if shard != 0:
        return
    import jsonschema
    import mappyfile
    from mappyfile.ordereddict import CaseInsensitiveOrderedDict

    W = env.Workers.get()

    def viol(bucket, msg, case):
        acc.violations.append({"bucket": bucket, "message": msg, "case": case, "search": "tables", "shard": 0, "round": 0,
                               "seed": env.verif_seed(), "tier": tier})

    # 1. every block type of the grammar has a schema and prints/parses at the root
    gtypes = grammar_block_types()
    for t in gtypes + ["metadata", "validation", "connectionoptions"]:
        acc.evaluations += 1
        acc.exhaustive_cases += 1
        acc.nontrivial.add(env.fp(["root", t]))
        case = {"root_type": t}
        if not os.path.exists(os.path.join(env.SCHEMAS, t + ".json")):
            viol(f"no_schema:{t}", f"grammar opens block type {t.upper()} but there is no schema file", case)
            continue
        try:
            d = W.loads(t.upper() + " END")
            out = W.dumps(d)
            d2 = W.loads(out)
            if refdict.equal_dicts(d, d2):
                viol(f"root_roundtrip:{t}", f"{t.upper()} END does not round-trip at the root", case)
        except Exception as e:
            viol(f"root:{t}", f"{t.upper()} END at the root: {type(e).__name__}: {e!s:.100}", case)
    if sorted(gtypes) != sorted(vocab.OBJ_TYPES):
        viol("type_lists", f"grammar block types {gtypes} differ from the schema object types {sorted(vocab.OBJ_TYPES)}", {"types": gtypes})
    # 2. singleton / plural consistency: transformer, printer, auto-creating dict, parent schema
    kf = kf_open()
    for (p, k, c, is_list) in vocab.child_edges():
        acc.evaluations += 1
        acc.exhaustive_cases += 1
        acc.nontrivial.add(env.fp(["edge", p, k, c]))
        case = {"edge": [p, k, c, is_list]}
        if c == "symbol" and p in ("style", "class") and "KF16" in kf:
            acc.excl("KF16:inline_symbol_block")
            continue
        auto = CaseInsensitiveOrderedDict(CaseInsensitiveOrderedDict)
        v = auto[k]
        if isinstance(v, list) != is_list:
            viol(f"autodict:{p}.{k}", f"auto-creating dict gives {type(v).__name__} for {p}.{k} but the schema says {'array' if is_list else 'object'}", case)
        if p == "symbolset":
            text = "SYMBOLSET SYMBOL END END"
        else:
            extra = " TYPE POINT" if p == "layer" else ""
            text = f"{p.upper()}{extra} {c.upper()} END END"
        try:
            d = W.loads(text)
            if k not in d or isinstance(d[k], list) != is_list:
                viol(f"transformer:{p}.{k}", f"{c.upper()} inside {p.upper()} is stored under {[x for x in d.keys() if not x.startswith('__') and x != 'type']} but the schema declares {k!r} as {'array' if is_list else 'object'}", case)
                continue
            out = W.dumps(d)
            d2 = W.loads(out)
            if refdict.equal_dicts(d, d2):
                viol(f"printer:{p}.{k}", f"{text!r} is not printed back consistently: {out!r:.100}", case)
        except Exception as e:
            viol(f"edge:{p}.{k}", f"{text!r}: {type(e).__name__}: {e!s:.100}", case)
    # 3. defaults are valid for their own keyword; create(type, version)
    for f in vocab.schema_files():
        name = f[:-5]
        sch = vocab.raw(f)
        if "properties" not in sch:
            continue
        full = vocab.draft4_schema(name)
        for k, node in sch["properties"].items():
            if "default" in node:
                if name == "label" and k == "backgroundshadowsize" and "KF12" in kf:
                    acc.excl("KF12:label_backgroundshadowsize")
                    continue
                acc.evaluations += 1
                acc.exhaustive_cases += 1
                acc.nontrivial.add(env.fp(["default", name, k]))
                dv = node["default"]
                low = W.validator().convert_lowercase(dv) if False else _lower(dv)
                errs = list(jsonschema.Draft4Validator(full["properties"][k]).iter_errors(low))
                if errs:
                    viol(f"default:{name}.{k}", f"default {dv!r} of {name}.{k} is not valid for its own keyword: {errs[0].message:.100}", {"default": [name, k]})
        for v in VERSIONS:
            acc.evaluations += 1
            acc.exhaustive_cases += 1
            acc.nontrivial.add(env.fp(["create", name, v]))
            case = {"create": [name, v]}
            try:
                d = mappyfile.create(name, v)
            except Exception as e:
                viol(f"create:{name}", f"create({name!r}, {v}) raised {type(e).__name__}: {e!s:.100}", case)
                continue
            if name not in vocab.OBJ_TYPES:
                continue
            try:
                out = W.dumps(d)
                d2 = W.loads(out)
            except Exception as e:
                viol(f"create_print:{name}", f"create({name!r}, {v}) does not print / re-load: {type(e).__name__}: {e!s:.100}", case)
                continue
            rt = licence_walk(_plain(d), _plain(d2))
            if rt:
                viol(f"create_roundtrip:{name}", f"create({name!r}, {v}) changes when printed and re-loaded at {rt[0][0]}: {rt[0][1]}", case)
            try:
                msgs = [m for m in W.validator().validate(d, schema_name=name, version=v) if "is a required property" not in m.get("error", "")]
            except Exception as e:
                viol(f"create_validate_raises:{name}", f"validating create({name!r}, {v}) raised {type(e).__name__}: {e!s:.100}", case)
                continue
            if "KF12" in kf and name == "label":
                n0 = len(msgs)
                msgs = [m for m in msgs if not m["message"].upper().endswith(" BACKGROUNDSHADOWSIZE")]
                if len(msgs) != n0:
                    acc.excl("KF12:label_backgroundshadowsize")
            if msgs:
                viol(f"create_validate:{name}:{msgs[0]['message']}", f"create({name!r}, {v}) does not validate: {msgs[0]['error']:.120}", case)
    by = {}
    for v in acc.violations:
        by.setdefault(v["bucket"], v)
    acc.violations = list(by.values())


def _lower(x):
    if isinstance(x, list):
        return [_lower(v) for v in x]
    if isinstance(x, dict):
        return {k.lower(): _lower(v) for k, v in x.items()}
    if isinstance(x, str):
        return x.lower()
    return x


def _plain(x):
    from collections import OrderedDict

    if isinstance(x, dict):
        return OrderedDict((k, _plain(v)) for k, v in x.items())
    if isinstance(x, (list, tuple)):
        return [_plain(v) for v in x]
    return x


def interleave_check(parent, a, b, order):
    """children of two types, interleaved in the given order, are each stored under the key of their own type, in
    source order, and the parent still validates (a block type is stored consistently whatever stands around it)"""
    W = env.Workers.get()
    kids = {"a": a, "b": b}
    n = {"a": 0, "b": 0}
    items = []
    for x in order:
        t = kids[x]
        n[x] += 1
        body = [["attr", "type", "enum", "POINT"]] if t == "layer" else []
        if "name" in vocab.slots(t) and vocab.slots(t)["name"].alts[0].shape == "string":
            body.append(["attr", "name", "str", f"{x}{n[x]}"])
        items.append(["obj", {"t": t, "items": body}])
    if parent == "layer":
        items.append(["attr", "type", "enum", "POINT"])
    doc = [{"t": parent, "items": items}]
    case = {"interleave": [parent, a, b, order]}
    text = render.render(doc).text
    try:
        d = W.loads(text)
    except Exception as e:
        return [Discrepancy(f"interleave_load:{parent}", f"{parent} with {order} children ({a}, {b}) rejected: {e!s:.100}", case)]
    diffs = refdict.compare(refdict.refdict(doc), d)
    if diffs:
        return [Discrepancy(f"interleave_store:{parent}", f"{parent} with children {[kids[x] for x in order]}: at {diffs[0][0]}: {diffs[0][1]}", case)]
    try:
        msgs = [m for m in W.validator().validate(d, schema_name=parent) if "is a required property" not in m.get("error", "")]
    except Exception as e:
        return [Discrepancy(f"interleave_validate_raises:{parent}", f"validate raised {type(e).__name__}: {e!s:.100}", case)]
    if msgs:
        return [Discrepancy(f"interleave_validate:{parent}:{msgs[0]['message']}", f"{parent} with children {[kids[x] for x in order]} does not validate: {msgs[0]['error']:.120}", case)]
    return []


def interleave_part(acc: Acc, tier, shard, nshards):
    """exhaustive: every parent type x every ordered pair of its child types x the orders ABA, ABAB, AABA, BAB"""
    idx = 0
    by_parent = {}
    for (p, k, c, lst) in vocab.child_edges():
        if p == "symbolset" or (c == "symbol" and p in ("style", "class")):
            continue   # (KF16: inline SYMBOL under STYLE / CLASS)
        by_parent.setdefault(p, []).append((c, lst))
    for parent, kids in sorted(by_parent.items()):
        for (a, la) in kids:
            for (b, lb) in kids:
                if a == b or not la:
                    continue   # the type given again must be a list type; the one in between may be a singleton
                for order in (("aba", "abab", "aaba") if lb else ("aba", "aaba")):
                    mx = next((al.node.get("maxItems") for al in vocab.slots(parent)[refdict.plural(a)].alts if al.shape == "objlist"), None) \
                        if refdict.plural(a) in vocab.slots(parent) else None
                    if mx is not None and order.count("a") > mx:
                        continue
                    idx += 1
                    if idx % nshards != shard:
                        continue
                    acc.evaluations += 1
                    acc.exhaustive_cases += 1
                    acc.nontrivial.add(env.fp(["interleave", parent, a, b, order]))
                    acc.cls("interleave:" + order)
                    for dd in interleave_check(parent, a, b, order):
                        if not any(v["bucket"] == dd.bucket for v in acc.violations):
                            acc.violations.append({**dd.as_dict(), "search": "interleave", "shard": shard, "round": 0, "seed": env.verif_seed(), "tier": tier})


def replay(case):
    if "interleave" in case:
        return interleave_check(*case["interleave"])
    if "doc" in case:
        return check_case(case["doc"], case["info"], case)
    acc = Acc()
    _REPLAY["on"] = True
    try:
        tables_part(acc, "quick", 0, 1)
    finally:
        _REPLAY["on"] = False
    out = []
    for v in acc.violations:
        c = v["case"]
        if any(c.get(k) == case.get(k) and k in case for k in ("root_type", "edge", "default", "create", "types")):
            out.append(Discrepancy(v["bucket"], v["message"], c))
    return out
