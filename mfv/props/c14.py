"""C14 - kept comments are verbatim, never invented or duplicated, and stay attached."""
from __future__ import annotations

import collections
import re
import os

from .. import corpus, env, model, refdict, render, scanner
from ..harness import Acc, Discrepancy, hyp_search

ID = "C14"
RULE = ("(a) corpus files with their own comments (scanner cross-checked against the lexer's comment callback per file); (b) "
        "Hypothesis-drawn documents written one keyword per line with unique # and /* */ comments at the claimed placements - end "
        "of a line holding a single simple, single-line, non-repeatable keyword that occurs once in its object; whole lines "
        "directly above the opener of an object block or METADATA / VALIDATION / CONNECTIONOPTIONS block - and, as a labelled "
        "class, at unclaimed placements (after END, on the opener line, on PROCESSING / CONFIG / key-value pair lines, above "
        "PROJECTION / POINTS / PATTERN / VALUES, inside value lists). Oracle: (1) every comment in dumps(loads(src, "
        "include_comments=True)) is a source comment or the single-space join of source comments, none used more often than it "
        "occurs; (2) loads(output) == loads(dumps(loads(src))) exactly; (3) claimed placements: end-of-line comments are on the "
        "output line of that keyword, after its value; block comments occupy the lines directly above that block's opener, in "
        "order. Non-trivial: >= 3 comments with >= 1 at each claimed placement kind. Distinct = the source text.")
ASSUMPTIONS = [
    "newlinechar contains a line break; output quote absent from strings; expression look-alike strings not generated at multi-alternative keywords",
    "two comments on one source line are outside the claimed placements (the parser keys comments by line)",
]
TIERS = {
    "quick": {"examples": 10000, "budget_s": 110},
    "thorough": {"examples": 80000, "budget_s": 1800, "corpus_options": 6},
}
PARTS = ["corpus_part", "search"]
KV_CLAIMED = ("metadata", "validation", "connectionoptions")


class Placer:
    def __init__(self, ch):
        self.ch = ch
        self.n = 0
        self.placed = []   # dicts: text, kind, claimed, key/type, path
        self.texts = []

    def new(self, kind, hash_only=False):
        c = self._new(kind, hash_only)
        self.texts.append(c)
        return c

    def _new(self, kind, hash_only=False):
        self.n += 1
        ch = self.ch
        if ch.chance(1, 12):
            # nothing but a word - also one that names a block type (what end_comment itself writes behind END)
            w = ch.choice(["Legend", "LAYER", "class", "Style", "MAP", "END", "metadata", "POINTS", "todo", "x"])
            return ch.choice(["# ", "#", "# "]) + w
        if self.texts and ch.chance(1, 7):
            # the same comment text a second time (a repeated banner, the same TODO on two lines)
            again = [c for c in self.texts if c.startswith("#") or not hash_only]
            if again:
                return ch.choice(again)
        body = f"c{self.n} {kind}" + ch.choice(["", " note", " END", " LAYER x", " 'q'", " 100%", ' "dq', " caf\u00e9 \u8def", " ## x", " #! y", "  two  spaces", " back\\", " */ x" if False else " a*b", " [a] (b) {c}", " /path/x.map"])
        if ch.chance(1, 4):
            # any text may stand in a comment: a drawn string of any class (no line break, no comment terminator)
            from .. import strings as _s

            extra, _cls = _s.free_string(ch, multiline_ok=False)
            body += " " + extra.replace("*/", "* /").replace("\n", " ")
        style = 0 if hash_only else ch.int(0, 3)
        if style <= 1:
            return ch.choice(["# ", "#", "## ", "#! "]) + body
        if style == 2:
            return "/* " + body + " */"
        return "/* " + body + "\n   more */"


def lines_of(obj, ch, pl, out, path, ind=0, alive=True):
    """Append (text, info) lines for obj, one keyword per line, placing comments.
    alive=False: the object (or an ancestor) is a singleton block that is given again later in
    its parent - only the last one is kept, so nothing inside it is a claimed placement."""
    from ..render import atom_texts, Canonical, fmt_num, q

    surf = Canonical()
    pad = "  " * ind
    t = obj["t"]
    counts = collections.Counter(it[1] for it in obj["items"] if it[0] == "attr")

    last_single = {}
    for i_, it_ in enumerate(obj["items"]):
        if it_[0] == "obj" and it_[1]["t"] in model.SINGLETON:
            last_single[it_[1]["t"]] = i_

    def above(kind_name, opener_path, claimed):
        claimed = claimed and alive
        for _ in range(ch.choice([0, 0, 1, 1, 2, 3])):
            c = pl.new("above")
            pl.placed.append({"text": c.strip(), "kind": "above", "claimed": claimed, "of": kind_name, "path": opener_path})
            for ln in c.split("\n"):
                out.append(pad + ln if ln is c.split("\n")[0] else ln)

    def eol(text, key, claimed, kind="eol"):
        claimed = claimed and alive
        if ch.chance(1, 2):
            c = pl.new(kind, hash_only=False)
            if "\n" in c:
                c = c.replace("\n   more", " more")
            pl.placed.append({"text": c.strip(), "kind": kind, "claimed": claimed, "of": key, "path": path})
            return text + ch.choice([" ", "  ", "\t"]) + c
        return text

    if "kvroot" in obj:
        above(t, path, True)
        out.append(eol(pad + t.upper(), t, False, "opener_line"))
        for a, b in obj["kvroot"]:
            out.append(eol(pad + "  " + q(a, surf.quote(a)) + " " + q(b, surf.quote(b)), a, False, "pair_line"))
        out.append(eol(pad + "END", t, False, "after_end"))
        return
    above(t, path, t != "symbolset")
    out.append(eol(pad + t.upper(), t, False, "opener_line"))
    for i, it in enumerate(obj["items"]):
        kind = it[0]
        p2 = pad + "  "
        if kind == "obj":
            ct = it[1]["t"]
            lines_of(it[1], ch, pl, out, path + (i,), ind + 1, alive and (ct not in model.SINGLETON or last_single[ct] == i))
        elif kind == "attr":
            texts = [x for x, _ in atom_texts(it[2], it[3], surf)]
            single_line = not any("\n" in x for x in texts)
            if len(texts) > 1 and ch.chance(1, 8):
                c = pl.new("in_values", hash_only=True)
                pl.placed.append({"text": c.strip(), "kind": "in_values", "claimed": False, "of": it[1], "path": path})
                out.append(p2 + it[1].upper() + " " + texts[0] + " " + c)
                out.append(p2 + "  " + " ".join(texts[1:]))
                continue
            line = p2 + it[1].upper() + " " + " ".join(texts)
            claimed = single_line and counts[it[1]] == 1
            out.append(eol(line, it[1], claimed) if single_line else line)
        elif kind == "kv":
            claimed = alive and it[1] in KV_CLAIMED and sum(1 for x in obj["items"] if x[0] == "kv" and x[1] == it[1]) == 1
            for _ in range(ch.choice([0, 1, 1, 2])):
                c = pl.new("above")
                pl.placed.append({"text": c.strip(), "kind": "above", "claimed": claimed, "of": it[1], "path": path + (i,)})
                out.append(p2 + c)
            out.append(eol(p2 + it[1].upper(), it[1], False, "opener_line"))
            for a, b in it[2]:
                if "\n" in a or "\n" in b:
                    out.append(p2 + "  " + q(a, surf.quote(a)) + " " + q(b, surf.quote(b)))
                else:
                    out.append(eol(p2 + "  " + q(a, surf.quote(a)) + " " + q(b, surf.quote(b)), a, False, "pair_line"))
            out.append(eol(p2 + "END", it[1], False, "after_end"))
        elif kind == "config":
            out.append(eol(p2 + "CONFIG " + q(it[1], surf.quote(it[1])) + " " + q(it[2], surf.quote(it[2])), "config", False, "config_line"))
        elif kind == "pairs":
            for _ in range(ch.choice([0, 0, 1])):
                c = pl.new("above_unclaimed")
                pl.placed.append({"text": c.strip(), "kind": "above_unclaimed", "claimed": False, "of": it[1], "path": path})
                out.append(p2 + c)
            out.append(p2 + it[1].upper())
            for a, b in it[2]:
                out.append(p2 + "  " + fmt_num(a) + " " + fmt_num(b))
            out.append(eol(p2 + "END", it[1], False, "after_end"))
        elif kind == "proj":
            for _ in range(ch.choice([0, 0, 1])):
                c = pl.new("above_unclaimed")
                pl.placed.append({"text": c.strip(), "kind": "above_unclaimed", "claimed": False, "of": "projection", "path": path})
                out.append(p2 + c)
            out.append(p2 + "PROJECTION")
            if isinstance(it[1], str):
                out.append(p2 + "  " + it[1])
            else:
                for s in it[1]:
                    out.append(p2 + "  " + q(s, surf.quote(s)))
            out.append(eol(p2 + "END", "projection", False, "after_end"))
        elif kind == "rep":
            out.append(eol(p2 + it[1].upper() + " " + q(it[2], surf.quote(it[2])), it[1], False, "repeated_line"))
    out.append(eol(pad + "END", t, False, "after_end"))


def render_with_comments(doc, ch):
    pl = Placer(ch)
    out = []
    for ri, root in enumerate(doc):
        lines_of(root, ch, pl, out, (ri,))
    nl = ch.choice(["\n", "\n", "\r\n"])   # CRLF files: a multi-line C comment keeps its inner line breaks as they are
    text = "\n".join(out) + "\n"
    if nl == "\r\n":
        text = "\n".join(ch.choice(["", "\n"]) for _ in range(1)) + text.replace("\n", "\r\n")
        for p_ in pl.placed:
            p_["text"] = p_["text"].replace("\n", "\r\n")
    elif ch.chance(1, 6):
        text = "\n\n" + text   # blank lines before the first root
    return text, pl.placed


def check_comments(src, placed, case, opts=None, position=False):
    """placed: None for corpus files (only clauses 1 and 2)."""
    W = env.Workers.get()
    opts = opts or {}
    try:
        d = W.loads(src, comments=True, position=position)   # (comments are kept whether or not positions are recorded too)
    except Exception as e:
        return [Discrepancy(f"load_comments:{type(e).__name__}", f"loads(include_comments=True) raised {type(e).__name__}: {e!s:.100}", case)]
    try:
        out = W.dumps(d, **opts)
    except Exception as e:
        return [Discrepancy(f"dumps:{type(e).__name__}", f"dumps of the dictionary with comments raised {type(e).__name__}: {e!s:.100}", case)]
    res = []
    src_comments = scanner.scan(src)
    out_comments = scanner.scan(out)
    if opts.get("end_comment"):
        # the option writes a comment of its own behind every END ('END # LAYER'): not a kept comment
        chars0 = list(out)
        for oc in out_comments:
            for k in range(oc.off, oc.off + len(oc.raw)):
                chars0[k] = " "
        blank0 = "".join(chars0)

        def end_comment(oc):
            start = blank0.rfind("\n", 0, oc.off) + 1
            return blank0[start:oc.off].strip().upper() == "END" and re.fullmatch(r"# [A-Z]+", oc.text) is not None

        out_comments = [oc for oc in out_comments if not end_comment(oc)]
    avail = collections.Counter(c.text for c in src_comments)
    for oc in out_comments:
        if not scanner.decomposable(oc.text, avail):
            dup = any(sc.text and sc.text in oc.text for sc in src_comments)
            res.append(Discrepancy("verbatim:" + ("duplicated" if dup else "invented"),
                                   f"output comment {oc.text!r:.100} is not (a join of) unused source comments; source has {[c.text for c in src_comments][:8]}", case))
            break
    # (2) content
    try:
        d_out = W.loads(out)
    except Exception as e:
        res.append(Discrepancy(f"content:reload:{type(e).__name__}", f"output with comments is rejected by loads: {e!s:.120}", case))
        return res
    try:
        d_plain = W.loads(W.dumps(W.loads(src), **opts))
    except Exception as e:
        return res + [Discrepancy(f"plain_pipeline:{type(e).__name__}", f"plain load/print/load failed: {e!s:.100}", case)]
    diffs = refdict.equal_dicts(d_plain, d_out)
    if diffs:
        res.append(Discrepancy("content:differs", f"output with comments loads to different content at {diffs[0][0]}: {diffs[0][1]}", case))
        return res
    # (3) claimed placements
    if placed:
        # a copy of the output in which every comment is blanked out (line breaks inside comments too)
        chars = list(out)
        for oc in out_comments:
            for k in range(oc.off, oc.off + len(oc.raw)):
                chars[k] = " "
        blank = "".join(chars)
        # texts may repeat: every claimed comment needs an output occurrence of its own at its place, and the comments
        # above one block must be assignable in source order
        need = collections.Counter(p["text"] for p in placed if p["claimed"])
        used = set()
        last_above = {}
        for pi, p in enumerate(placed):
            if not p["claimed"]:
                continue
            hits = [oc for oc in out_comments if p["text"] in oc.text]
            if len(hits) < need[p["text"]]:
                res.append(Discrepancy(f"placement:{p['kind']}:lost", f"claimed {p['kind']} comment {p['text']!r} of {p['of']} is missing from the output "
                                       f"({len(hits)} of {need[p['text']]} occurrence(s) left)", case))
                break
            good, why = [], None
            for oc in hits:
                start = blank.rfind("\n", 0, oc.off) + 1
                before = blank[start:oc.off].strip()
                if p["kind"] == "eol":
                    if before.upper().startswith(p["of"].upper() + " "):
                        good.append(oc.off)
                    else:
                        why = why or Discrepancy("placement:eol:moved", f"end-of-line comment {p['text']!r} of {p['of'].upper()} follows {before!r:.80} in the output", case)
                else:
                    rest = blank[oc.off + len(oc.raw):]
                    nxt = next((ln.strip() for ln in rest.split("\n") if ln.strip()), "")
                    if nxt == p["of"].upper() and not before:
                        good.append(oc.off)
                    else:
                        why = why or Discrepancy("placement:above:moved", f"comment {p['text']!r} written above {p['of'].upper()} is followed by {nxt!r:.60} (preceded on its line by {before!r:.40}) in the output", case)
            free = [o for o in good if o not in used]
            if not free:
                res.append(why or Discrepancy(f"placement:{p['kind']}:lost", f"claimed {p['kind']} comment {p['text']!r} of {p['of']} has no occurrence of its own left at its place in the output", case))
                break
            if p["kind"] == "above":
                blk = (tuple(p["path"]), p["of"])
                later = [o for o in free if o > last_above.get(blk, -1)]
                if not later:
                    res.append(Discrepancy("placement:above:order", f"comments above {p['of'].upper()} are written in a different order", case))
                    break
                pick = min(later)
                last_above[blk] = pick
            else:
                pick = min(free)
            used.add(pick)
    return res


def placed_text(placed, path, of):
    return [p["text"] for p in placed if p["claimed"] and p["kind"] == "above" and tuple(p["path"]) == tuple(path) and p["of"] == of]


def _in_c_comment(comments, line1):
    return any(c.text.startswith("/*") and c.line <= line1 <= c.end_line for c in comments)


def corpus_part(acc: Acc, tier, shard, nshards):
    W = env.Workers.get()
    for p, text, d in corpus.load_all(shard, nshards, acc):
        mine = [c.text for c in scanner.scan(text)]
        if not mine:
            acc.excl("corpus:no_comments")
            continue
        pc = W.parser(comments=True)
        pc.parse(text)
        lex = [c.value.strip() for c in pc._comments]
        if lex != mine:
            acc.excl("corpus:scanner_and_lexer_disagree")
            continue
        if any('"' in s for s in _strings(d)):
            acc.excl("corpus:output_quote_inside_string")
            continue
        case = {"file": corpus.rel(p)}
        acc.case(case, len(mine) >= 3, sample={"file": corpus.rel(p), "comments": len(mine)})
        acc.cls("corpus_comments", len(mine))
        acc.cls("corpus_files")
        case["position"] = (len(text) % 2 == 1)
        for dd in check_comments(text, None, case, position=case["position"]):
            if not any(v["bucket"] == dd.bucket for v in acc.violations):
                acc.violations.append({**dd.as_dict(), "search": "corpus", "shard": shard, "round": 0, "seed": env.verif_seed(), "tier": tier})


def _strings(d):
    from .c01 import all_strings

    return all_strings(d)


def search(acc: Acc, tier, shard, nshards):
    n = TIERS[tier]["examples"] // nshards
    prof = model.Profile(max_depth=4, max_items=6, forbid='"', lookalike_multi=False, dups=True, includes=True)

    def body(data):
        ch = model.Ch(data.draw)
        doc = model.any_document(model.Gen(ch, prof))
        src, placed = render_with_comments(doc, ch)
        kinds = collections.Counter((p["kind"], p["claimed"]) for p in placed)
        nt = len(placed) >= 3 and kinds[("eol", True)] >= 1 and kinds[("above", True)] >= 1
        acc.case(src, nt, sample={"text": src[:900]} if nt and len(src) < 900 else None)
        for (k, c), v in kinds.items():
            acc.cls(f"placement:{k}:{'claimed' if c else 'unclaimed'}", v)
        opts = None
        if ch.chance(1, 2):
            # any layout options with a newlinechar that contains a line break (end_comment adds comments of its own
            # and stays off: the verbatim clause speaks of the comments dumps writes for the source's comments)
            from .. import options

            opts = options.draw(ch, quotes=['"'], linebreak_only=True, has_comments=True)
            opts["end_comment"] = ch.chance(1, 4)   # (its own 'END # TYPE' comments are set aside by the oracle)
            acc.cls("with_layout_options")
        position = ch.chance(1, 3)
        if position:
            acc.cls("with_include_position")
        return check_comments(src, placed, {"text": src, "placed": placed, "opts": opts, "position": position}, opts=opts, position=position)

    hyp_search(acc, ID, "documents", shard, n, body, tier)


def replay(case):
    if "file" in case:
        return check_comments(corpus.read(os.path.join(env.REPO, case["file"])), None, case, position=case.get("position", False))
    return check_comments(case["text"], case.get("placed"), case, opts=case.get("opts"), position=case.get("position", False))
