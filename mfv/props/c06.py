"""C06 - formatting options never change content."""
from __future__ import annotations

import copy
import os
import re

from .. import corpus, env, model, options, refdict, render
from ..harness import Acc, Discrepancy, hyp_each, hyp_search
from .c01 import all_strings

ID = "C06"
RULE = ("Corpus files and Hypothesis-drawn documents; base = loads(dumps(d)); for each option set o (indent 0..8 x spacer x "
        "quote x newlinechar LF/CRLF/space x end_comment x align_values x separate_complex_types; drawn in the quick tier, "
        "the whole admissible cross product on a pool of documents in the thorough tier) loads(dumps(copy, **o)) must equal "
        "base exactly, or - with separate_complex_types - per object: same simple-key sequence, same block-key sequence, "
        "simple keys before block-valued keys, equal values ('block-valued' decided from the value). Non-trivial: option "
        "set differs from the default in >= 2 options and nesting depth >= 2. Distinct = (document, option set).")
ASSUMPTIONS = [
    "a quote character is only chosen for output when no string of the document contains it (documented limitation)",
    "newlinechar ' ' only with end_comment=False and no loaded comments",
]
TIERS = {
    "quick": {"examples": 8000, "sets_per_doc": 6, "corpus_sets": 10, "budget_s": 110},
    "thorough": {"examples": 40000, "sets_per_doc": 8, "corpus_sets": 60, "pool": 600, "budget_s": 1800},
}
PARTS = ["corpus_part", "search"]


def is_block(v):
    if isinstance(v, dict):
        return True
    if isinstance(v, (list, tuple)):
        return True if False else any(isinstance(x, (dict, list, tuple)) for x in v) or False
    return False


def block_valued(key, v):
    """child object, list of objects, key-value block, PROJECTION, POINTS, PATTERN - decided from the value"""
    if isinstance(v, dict):
        return key != "config"
    if isinstance(v, (list, tuple)):
        if key == "projection":
            return True
        return any(isinstance(x, (dict, list, tuple)) for x in v)
    return False


def compare_sep(base, got, path="", out=None):
    out = [] if out is None else out
    if isinstance(base, dict) and isinstance(got, dict):
        kb = [k for k in base if not (k.startswith("__") and k.endswith("__"))]
        kg = [k for k in got if not (k.startswith("__") and k.endswith("__"))]
        if base.get("__type__") != got.get("__type__"):
            out.append((path, "type differs"))
        is_obj = "__type__" in base and base["__type__"] not in ("metadata", "validation", "values", "connectionoptions")
        if is_obj:
            sb = [k for k in kb if not block_valued(k, base[k])]
            bb = [k for k in kb if block_valued(k, base[k])]
            sg = [k for k in kg if k in got and not block_valued(k, got[k])]
            bg = [k for k in kg if block_valued(k, got[k])]
            if sb != sg:
                out.append((path, f"simple-key sequence changed: {sb} -> {sg}"))
            if bb != bg:
                out.append((path, f"block-key sequence changed: {bb} -> {bg}"))
            if kg != sg + bg:
                out.append((path, f"a block-valued key precedes a simple key: {kg}"))
        elif kb != kg:
            out.append((path, f"key sequence differs: {kb} vs {kg}"))
        for k in kb:
            if k in got:
                compare_sep(base[k], got[k], path + "/" + k, out)
        return out
    if isinstance(base, (list, tuple)) and isinstance(got, (list, tuple)):
        if len(base) != len(got):
            out.append((path, "list length differs"))
        for i, (x, y) in enumerate(zip(base, got)):
            compare_sep(x, y, f"{path}[{i}]", out)
        return out
    if type(base) is not type(got) or base != got:
        out.append((path, f"value differs: {base!r:.60} vs {got!r:.60}"))
    return out


def optkey(o):
    return "i%d%s%s%s%s%s%s" % (o["indent"], "T" if o["spacer"] == "\t" else "S", "d" if o["quote"] == '"' else "s",
                               {"\n": "LF", "\r\n": "CRLF", " ": "SP"}[o["newlinechar"]], "e" if o["end_comment"] else "",
                               "a" if o["align_values"] else "", "c" if o["separate_complex_types"] else "")


def bucket(stage, o, loc, msg):
    key = re.sub(r"\[\d+\]", "", loc).split("/")[-1] if loc else ""
    feat = "+".join(k for k in ("separate_complex_types", "align_values", "end_comment") if o.get(k)) or "plain"
    nl = {"\n": "LF", "\r\n": "CRLF", " ": "SP"}[o["newlinechar"]]
    return f"{stage}:{feat}:{nl}:{key}:{re.sub(r'[0-9]+', 'N', msg)[:24]}"


def check_options(d, opts, case_base, acc=None, depth=0, base_quote='"'):
    W = env.Workers.get()
    out = []
    try:
        # "the default formatting", written with a quote character no string contains
        base = W.loads(W.dumps(copy.deepcopy(d), quote=base_quote))
    except Exception as e:
        return [Discrepancy(f"base:{type(e).__name__}", f"default formatting does not round-trip: {e!s:.150}", case_base)]
    for o in opts:
        case = dict(case_base, options=o)
        if acc is not None:
            acc.case([case_base.get("fp"), optkey(o)], options.n_diff(o) >= 2 and depth >= 2,
                     sample=None)
            acc.cls("opt:" + ("sep" if o["separate_complex_types"] else "nosep"))
            acc.cls("opt:newline:" + {"\n": "LF", "\r\n": "CRLF", " ": "SP"}[o["newlinechar"]])
            acc.cls("opt:indent:%d" % o["indent"])
        try:
            t = W.dumps(copy.deepcopy(d), **o)
        except Exception as e:
            out.append(Discrepancy(bucket("dumps", o, "", type(e).__name__), f"dumps raised {type(e).__name__}: {e!s:.150} with {o}", case))
            continue
        try:
            got = W.loads(t)
        except Exception as e:
            out.append(Discrepancy(bucket("reload", o, "", type(e).__name__), f"formatted text rejected ({type(e).__name__}: {e!s:.100}) with {o}", case))
            continue
        diffs = compare_sep(base, got) if o["separate_complex_types"] else refdict.equal_dicts(base, got)
        for loc, msg in diffs:
            out.append(Discrepancy(bucket("content", o, loc, msg), f"with {o}, at {loc}: {msg}", case))
            break
    return out


def dict_depth(d):
    if isinstance(d, dict):
        return 1 + max([dict_depth(v) for v in d.values()] + [0]) if "__type__" in d else max([dict_depth(v) for v in d.values()] + [0])
    if isinstance(d, list):
        return max([dict_depth(v) for v in d] + [0])
    return 0


def corpus_part(acc: Acc, tier, shard, nshards):
    items = list(corpus.load_all(shard, nshards, acc))
    k = TIERS[tier]["corpus_sets"]

    def make_body(item):
      p, text, d = item

      def body(data):
        ch = model.Ch(data.draw)
        qs = options.usable_quotes(all_strings(d))
        if not qs:
            acc.excl("corpus:both_quotes_in_strings")
            return []
        o = options.draw(ch, quotes=qs)
        return check_options(d, [o], {"file": corpus.rel(p), "fp": corpus.rel(p), "base_quote": qs[0]}, acc, dict_depth(d), qs[0])

      return body

    hyp_each(acc, ID, "corpus", shard, items, k, make_body, tier, key=lambda it: corpus.rel(it[0]))


def search(acc: Acc, tier, shard, nshards):
    cfg = TIERS[tier]
    n = cfg["examples"] // nshards
    W = env.Workers.get()

    def body(data):
        ch = model.Ch(data.draw)
        kinds = ch.choice(["d", "s", "both"])
        forbid = {"d": "'", "s": '"', "both": "'\""}[kinds]  # strings avoid the quotes that may be used for output
        quotes = {"d": ['"'], "s": ["'"], "both": ['"', "'"]}[kinds]
        # forbid chars are those of the *output* quotes
        forbid = "".join(quotes)
        prof = model.Profile(max_depth=4, max_items=6, forbid=forbid, lookalike_multi=False)
        doc = model.any_document(model.Gen(ch, prof))
        text = render.render(doc).text
        try:
            d = W.loads(text)
        except Exception as e:
            return [Discrepancy(f"load:{type(e).__name__}", f"generated document rejected: {e!s:.150}", {"text": text})]
        opts = [options.draw(ch, quotes=quotes) for _ in range(cfg["sets_per_doc"])]
        s = model.stats_of(doc)
        if len(text) > 200 and len(acc.samples) < 2:
            acc.samples.append({"text": text[:800], "options": opts[:2]})
        return check_options(d, opts, {"text": text, "fp": env.fp(doc), "base_quote": quotes[0]}, acc, s["depth"] + 1, quotes[0])

    hyp_search(acc, ID, "documents", shard, n, body, tier)
    if tier == "thorough":
        full_product(acc, tier, shard, nshards)


def full_product(acc, tier, shard, nshards):
    """thorough: the whole admissible cross product on a pool of generated documents."""
    W = env.Workers.get()
    pool = TIERS[tier]["pool"] // nshards
    sets = {tuple(q): options.all_sets(quotes=list(q)) for q in (('"',), ("'",), ('"', "'"))}

    def body(data):
        ch = model.Ch(data.draw)
        quotes = ch.choice([('"',), ("'",), ('"', "'")])
        prof = model.Profile(max_depth=3, max_items=5, forbid="".join(quotes), lookalike_multi=False)
        doc = model.Gen(ch, prof).document()
        text = render.render(doc).text
        try:
            d = W.loads(text)
        except Exception as e:
            return [Discrepancy(f"load:{type(e).__name__}", f"generated document rejected: {e!s:.150}", {"text": text})]
        acc.cls("full_product_documents")
        return check_options(d, sets[quotes], {"text": text, "fp": env.fp(doc), "base_quote": quotes[0]}, acc,
                             model.stats_of(doc)["depth"] + 1, quotes[0])

    hyp_search(acc, ID, "product", shard, pool, body, tier)


def replay(case):
    W = env.Workers.get()
    if "file" in case:
        text = corpus.read(os.path.join(env.REPO, case["file"]))
    else:
        text = case["text"]
    d = W.loads(text)
    return check_options(d, [case["options"]], {k: v for k, v in case.items() if k != "options"},
                         base_quote=case.get("base_quote", '"'))
