"""C20 - file, stream and command-line front ends agree with the string API."""
from __future__ import annotations

import copy
import io
import json
import os
import shutil
import subprocess
import sys
import tempfile

from .. import env, model, refdict, render, strings
from ..harness import Acc, Discrepancy, hyp_search, open_ids

ID = "C20"
RULE = ("In-process (Hypothesis): documents whose string values draw from all Unicode planes are written to a temporary file as "
        "UTF-8; open(path), load(file object) and loads(text) must return equal dictionaries; save's bytes must decode to the "
        "dumps text and dump to a newline='' stream likewise; open(save(d)) must equal loads(dumps(d)); every string value of the "
        "model must survive save -> open unchanged. CLI (real subprocesses of the mappyfile command): 'format IN OUT <options>' must "
        "write exactly the bytes of save(open(IN, ..., include_position=True), <same options>) and exit 0; 'validate FILES "
        "--version V' over drawn sets of valid / invalid (1..300 errors, including 255, 256, 257) / unparseable files must print one "
        "line per in-process validation message plus the per-file and summary lines, and exit 0 iff every file parsed and "
        "validated, otherwise non-zero and equal to the number of problems when <= 255; 'schema OUT --version V' must write the JSON "
        "of Validator().get_versioned_schema(V). Non-trivial: a non-ASCII or astral character in a value; a file set with >= 2 "
        "kinds of files; an error count >= 255. Distinct = document / invocation.")
ASSUMPTIONS = [
    "string values contain no CR (open() reads in universal-newline mode; known finding KF15) and not the output quote",
    "the CLI is run as /venv/bin/mappyfile (or python -c with the scratch tree on sys.path when MFV_REPO points elsewhere)",
]
TIERS = {
    "quick": {"examples": 2000, "cli": 48, "budget_s": 110},
    "thorough": {"examples": 50000, "cli": 1500, "budget_s": 2400},
}
PARTS = ["search", "cli_part"]

_tmp = {"dir": None}


def tmpdir():
    if _tmp["dir"] is None:
        _tmp["dir"] = tempfile.mkdtemp(prefix="mfv_c20_")
    return _tmp["dir"]


def all_string_values(doc):
    out = []
    for root in doc:
        for kv in root.get("kvroot", []):
            out += list(kv)
        for _, o in model.walk(root):
            for it in o["items"]:
                if it[0] == "attr" and it[2] == "str":
                    out.append(it[3])
                elif it[0] == "kv":
                    for a, b in it[2]:
                        out += [b]
                elif it[0] == "config":
                    out.append(it[2])
                elif it[0] == "proj" and not isinstance(it[1], str):
                    out += list(it[1])
                elif it[0] == "rep":
                    out.append(it[2])
    return out


def dict_strings(d, out=None):
    out = [] if out is None else out
    if isinstance(d, dict):
        for k, v in d.items():
            if not (isinstance(k, str) and k.startswith("__")):
                dict_strings(v, out)
    elif isinstance(d, (list, tuple)):
        for v in d:
            dict_strings(v, out)
    elif isinstance(d, str):
        out.append(d)
    return out


def check_files(doc, text, case):
    import mappyfile

    W = env.Workers.get()
    out = []
    p = os.path.join(tmpdir(), "in_%d.map" % os.getpid())
    with open(p, "w", encoding="utf-8", newline="") as f:
        f.write(text)
    kw = dict(expand_includes=False)
    try:
        if case.get("public"):
            d_loads = mappyfile.loads(text, **kw)
            d_open = mappyfile.open(p, **kw)
            with open(p, encoding="utf-8") as f:
                d_load = mappyfile.load(f, **kw)
        else:
            # the same code path with reusable worker objects (a Parser costs ~0.3 s to build)
            d_loads = W.loads(text)
            d_open = W.m2d().transform(W.parser().parse_file(p))
            with open(p, encoding="utf-8") as f:
                d_load = W.m2d().transform(W.parser().load(f))
    except Exception as e:
        return [Discrepancy(f"load:{type(e).__name__}", f"a front end failed on a valid document: {type(e).__name__}: {e!s:.120}", case)]
    extra = []
    try:
        # file objects whose .name is not a path (os.fdopen, tempfile.TemporaryFile: the name is the descriptor number);
        # the public default expand_includes=True whenever the text has no INCLUDE line
        exp = not env.has_include_line(text)
        pr = W.parser(False, exp)
        with os.fdopen(os.open(p, os.O_RDONLY), encoding="utf-8") as f:
            extra.append(("load(os.fdopen)", W.m2d().transform(pr.load(f))))
        with tempfile.TemporaryFile("w+", encoding="utf-8", newline="") as f:
            f.write(text)
            f.seek(0)
            extra.append(("load(TemporaryFile)", W.m2d().transform(pr.load(f))))
        extra.append(("load(StringIO)", W.m2d().transform(pr.load(io.StringIO(text)))))
    except Exception as e:
        return [Discrepancy(f"load_fileobject:{type(e).__name__}", f"load() failed on a file object that has no path for a name: {type(e).__name__}: {e!s:.120}", case)]
    for name, dd in [("open", d_open), ("load", d_load)] + extra:
        diffs = refdict.equal_dicts(d_loads, dd)
        if diffs:
            out.append(Discrepancy(f"front_end:{name}", f"{name}() differs from loads() at {diffs[0][0]}: {diffs[0][1]}", case))
            return out
    # writers
    q = '"'
    o = dict(case.get("opts") or {}, quote=q)
    # (the reference is a fresh PrettyPrinter; each writer gets a copy: separate_complex_types reorders its argument)
    t_dumps = W.PrettyPrinter(**o).pprint(copy.deepcopy(d_loads))
    if mappyfile.dumps(copy.deepcopy(d_loads), **o) != t_dumps:
        out.append(Discrepancy("dumps:characters", f"mappyfile.dumps wrote different characters than a PrettyPrinter with the same options {o}", case))
        return out
    p2 = os.path.join(tmpdir(), "out_%d.map" % os.getpid())
    mappyfile.save(copy.deepcopy(d_loads), p2, **o)
    with open(p2, "rb") as f:
        raw = f.read()
    try:
        t_save = raw.decode("utf-8")
    except UnicodeDecodeError as e:
        return [Discrepancy("save:not_utf8", f"save did not write UTF-8: {e}", case)]
    if t_save != t_dumps:
        out.append(Discrepancy("save:characters", f"save wrote different characters than dumps returns: {t_save[:80]!r} vs {t_dumps[:80]!r}", case))
        return out
    s = io.StringIO(newline="")
    mappyfile.dump(copy.deepcopy(d_loads), s, **o)
    if s.getvalue() != t_dumps:
        out.append(Discrepancy("dump:characters", "dump wrote different characters than dumps returns", case))
        return out
    try:
        d_back = mappyfile.open(p2, **kw) if case.get("public") else W.m2d().transform(W.parser().parse_file(p2))
        d_ref = W.loads(t_dumps)
    except Exception as e:
        return [Discrepancy(f"reopen:{type(e).__name__}", f"saved file cannot be re-opened: {e!s:.120}", case)]
    diffs = refdict.equal_dicts(d_ref, d_back)
    if diffs:
        out.append(Discrepancy("save_open:content", f"open(save(d)) differs from loads(dumps(d)) at {diffs[0][0]}: {diffs[0][1]}", case))
        return out
    import collections

    # the model's string values, as far as loads kept them (a keyword given twice keeps its last value); counted
    # per value, so that an enumerated word spelled like a string value (TRANSPARENCY alpha beside CLASSGROUP
    # "alpha"), which may legitimately come back upper-cased, is not taken for a string
    want = collections.Counter(all_string_values(doc)) & collections.Counter(dict_strings(d_loads))
    got = dict_strings(d_back)
    missing = want - collections.Counter(got)
    if missing:
        s0 = next(iter(missing))
        out.append(Discrepancy("save_open:string_lost", f"string value {s0!r:.60} did not survive save -> open", case))
    return out


def search(acc: Acc, tier, shard, nshards):
    n = TIERS[tier]["examples"] // nshards
    prof = model.Profile(max_depth=3, max_items=6, forbid='"', lookalike_multi=False, includes=True)
    counter = {"i": 0}

    def body(data):
        ch = model.Ch(data.draw)
        counter["i"] += 1
        st_ = {}
        doc = model.any_document(model.Gen(ch, prof, st_))
        text = render.render(doc, render.Surface(ch) if ch.bool() else None).text
        vals = all_string_values(doc)
        nonascii = any(not s.isascii() for s in vals)
        astral = any(ord(c) > 0xFFFF for s in vals for c in s)
        acc.case([doc, text], nonascii, sample={"text": text[:500]} if astral and len(text) < 500 else None)
        acc.cls("strings:non_ascii" if nonascii else "strings:ascii")
        if astral:
            acc.cls("strings:astral")
        opts = None
        if ch.bool():
            from .. import options

            opts = options.draw(ch, quotes=['"'])
            acc.cls("with_layout_options")
        return check_files(doc, text, {"doc": doc, "text": text, "public": ch.chance(1, 10), "opts": opts})

    hyp_search(acc, ID, "files", shard, n, body, tier)


# ------------------------------------------------------------------ CLI

def cli_cmd():
    if env.REPO == "/repo" and os.path.exists("/venv/bin/mappyfile"):
        return ["/venv/bin/mappyfile"]
    return [sys.executable, "-c", f"import sys; sys.path.insert(0, {env.REPO!r}); from mappyfile.cli import main; main()"]


def run_cli(args, cwd):
    e = dict(os.environ)
    e.pop("PYTHONPATH", None)
    r = subprocess.run(cli_cmd() + args, cwd=cwd, capture_output=True, env=e, timeout=600)
    return r.returncode, r.stdout.decode("utf-8", "replace"), r.stderr.decode("utf-8", "replace")


def make_invalid(n):
    if n == 2:
        # two messages that read the same: one keyword, the same offending value twice
        return "MAP\n  NAME 'invalid'\n  SIZE 10.5 10.5\nEND\n"
    layers = "".join(f"  LAYER\n    NAME 'l{i}'\n    TYPE bogus_type\n  END\n" for i in range(n))
    return "MAP\n  NAME 'invalid'\n" + layers + "END\n"


UNPARSEABLE = ["MAP\n  NAME 'x'\n", "MAP NAME END", "LAYER TYPE POINT END END", "\x00",
               "MAP\n  INCLUDE 'no_such_file.map'\nEND\n", "SELF", "LATIN1", "DEEP"]


def cli_validate_case(ch, work, forced=None):
    import mappyfile

    kinds = []
    files = []
    nfiles = ch.int(1, 4) if forced is None else len(forced)
    total_errors_hint = ch.choice([None, None, 255, 256, 257, 300, 512]) if forced is None else None
    for i in range(nfiles):
        kind = ch.choice(["valid", "invalid", "invalid", "unparseable", "versioned", "versioned"]) if forced is None else forced[i][0]
        fn = f"f{i}_{kind}.map"
        if kind == "versioned":
            # a map whose verdict depends on --version: one keyword with minVersion / maxVersion in its schema entry
            from . import c09

            ents = [e for e in c09.entries() if e[4] is not None and any(c[0][0] == "map" for c in c09.chains(e[0], 3))]
            t_, k_, ai_, meta_, rep_ = ch.choice(ents)
            chain = [c for c in c09.chains(t_, 3) if c[0][0] == "map"][0]
            text = render.render(c09.build_doc(chain, rep_)).text
        elif kind == "valid":
            text = "MAP\n  NAME 'ok'\n  LAYER\n    NAME 'x'\n    TYPE POINT\n  END\nEND\n"
        elif kind == "invalid":
            n = total_errors_hint if (total_errors_hint and "invalid" not in kinds) else ch.choice([1, 2, 3, 7, 40])
            text = make_invalid(n)
        else:
            # every way a file can fail to parse: syntax, an INCLUDE that is missing / nested too deeply / circular,
            # bytes that are not UTF-8
            text = ch.choice(UNPARSEABLE) if forced is None else forced[i][1]
            if text == "SELF":
                text = f"MAP\n  INCLUDE '{fn}'\nEND\n"
        if text == "LATIN1":
            with open(os.path.join(work, fn), "wb") as f:
                f.write("MAP\n  NAME 'caf\u00e9'\nEND\n".encode("latin-1"))
            kinds.append(kind)
            files.append(fn)
            continue
        if text == "DEEP":
            for lvl in range(1, 7):
                with open(os.path.join(work, f"deep{i}_{lvl}.inc"), "w", encoding="utf-8") as f:
                    f.write(f"INCLUDE 'deep{i}_{lvl + 1}.inc'\n" if lvl < 6 else "NAME 'leaf'\n")
            text = f"MAP\n  INCLUDE 'deep{i}_1.inc'\nEND\n"
        with open(os.path.join(work, fn), "w", encoding="utf-8", newline="") as f:
            f.write(text)
        kinds.append(kind)
        files.append(fn)
    version = ch.choice([None, 7.6, 8.0, 8.2, 6.0, 5.0, 7.0, 7.2, 5.4, 6.2])
    args = ["validate"] + files + ([] if version is None else ["--version", str(version)])
    # expectation from the API
    exp_msgs = []   # (file name, message) in order: each needs a stdout line of its own
    problems = 0
    v = 8.2 if version is None else version
    for fn in files:
        try:
            d = mappyfile.open(os.path.join(work, fn), include_position=True)
        except Exception:
            problems += 1
            continue
        for m in mappyfile.validate(d, v):
            exp_msgs.append((fn, m))
            problems += 1
    code, out, err = run_cli(args, work)
    case = {"cli": args, "kinds": kinds, "problems": problems}
    res = []
    got_lines = [l for l in out.replace("\r\n", "\n").split("\n") if l != ""]
    # one line per validation message: it names the file, the keyword / object and carries the schema error text
    free = list(got_lines)
    for fn, m in exp_msgs:
        hit = next((l for l in free if fn in l and m["error"] in l and m["message"].split()[-1] in l), None)
        if hit is None:
            res.append(Discrepancy("cli_validate:stdout", f"no stdout line for the message {m['message']!r} / {m['error']!r:.80} of {fn} ({len(got_lines)} lines, {len(exp_msgs)} messages)", case))
            break
        free.remove(hit)
    if not res and any(m["error"] in l for l in free for _, m in exp_msgs[:50]):
        res.append(Discrepancy("cli_validate:stdout_duplicate", "a validation message is printed on more than one line", case))
    if problems == 0 and code != 0:
        res.append(Discrepancy("cli_validate:exit_nonzero_for_valid", f"exit status {code} although every file parsed and validated", case))
    if problems > 0 and code == 0:
        res.append(Discrepancy(f"cli_validate:exit_zero:{'parse' if 'unparseable' in kinds and problems == kinds.count('unparseable') else 'count%d' % (problems if problems >= 255 else 0)}",
                               f"exit status 0 with {problems} problems ({kinds})", case))
    if 0 < problems <= 255 and code not in (0, problems):
        res.append(Discrepancy("cli_validate:exit_count", f"exit status {code} for {problems} problems", case))
    return res, case, (len(set(kinds)) >= 2 or problems >= 255 or "versioned" in kinds)


def cli_format_case(ch, work):
    import mappyfile

    prof = model.Profile(max_depth=3, max_items=6, forbid="\"'", lookalike_multi=False, includes=False, kv_roots=False, multi_root=False)
    doc = model.Gen(ch, prof).document()
    text = render.render(doc, render.Surface(ch) if ch.bool() else None).text
    with open(os.path.join(work, "in.map"), "w", encoding="utf-8", newline="") as f:
        f.write(text)
    indent = ch.choice([0, 1, 2, 4, 8])
    spacer = ch.choice([" ", "\t"])
    quote = ch.choice(['"', "'"])
    nl = ch.choice(["\n", "\r\n"])
    comments = ch.bool()
    expand = ch.bool()
    args = ["format", "in.map", "out.map", "--indent", str(indent), "--spacer", {" ": " ", "\t": "\\t"}[spacer], "--quote", quote,
            "--newlinechar", {"\n": "\\n", "\r\n": "\\r\\n"}[nl], "--comments" if comments else "--no-comments", "--expand" if expand else "--no-expand"]
    case = {"cli": args, "text": text}
    try:
        d = mappyfile.open(os.path.join(work, "in.map"), expand_includes=expand, include_comments=comments, include_position=True)
        mappyfile.save(d, os.path.join(work, "expected.map"), indent=indent, spacer=spacer, quote=quote, newlinechar=nl)
    except Exception as e:
        return [Discrepancy(f"cli_format:api:{type(e).__name__}", f"in-process formatting failed: {e!s:.100}", case)], case, False
    code, out, err = run_cli(args, work)
    if code != 0:
        return [Discrepancy("cli_format:exit", f"format exited with {code}: {err[-200:]}", case)], case, True
    with open(os.path.join(work, "expected.map"), "rb") as f:
        a = f.read()
    with open(os.path.join(work, "out.map"), "rb") as f:
        b = f.read()
    if a != b:
        return [Discrepancy("cli_format:bytes", f"format wrote {b[:80]!r} but save(open(...)) writes {a[:80]!r}", case)], case, True
    return [], case, True


def cli_schema_case(ch, work):
    W = env.Workers.get()
    v = ch.choice([None, 5.0, 6.0, 7.0, 7.6, 8.0, 8.2])
    args = ["schema", "schema.json"] + ([] if v is None else ["--version", str(v)])
    code, out, err = run_cli(args, work)
    case = {"cli": args}
    if code != 0:
        return [Discrepancy("cli_schema:exit", f"schema exited with {code}: {err[-200:]}", case)], case, True
    with open(os.path.join(work, "schema.json"), encoding="utf-8") as f:
        got = json.load(f)
    exp = json.loads(json.dumps(W.Validator().get_versioned_schema(v), sort_keys=True, indent=4))  # indent: pure-Python encoder (jsonref proxies)
    if got != exp:
        return [Discrepancy("cli_schema:content", f"schema --version {v} differs from Validator().get_versioned_schema({v})", case)], case, True
    return [], case, True


def cli_part(acc: Acc, tier, shard, nshards):
    n = max(1, TIERS[tier]["cli"] // nshards)

    def body(data):
        ch = model.Ch(data.draw)
        work = tempfile.mkdtemp(prefix="mfv_c20cli_")
        try:
            kind = ch.choice(["validate", "validate", "format", "format", "schema"])
            fn = {"validate": cli_validate_case, "format": cli_format_case, "schema": cli_schema_case}[kind]
            res, case, nt = fn(ch, work)
            acc.case(case, nt, sample={"cli": case["cli"], "kinds": case.get("kinds")} if len(acc.samples) < 3 else None)
            acc.cls("cli:" + kind)
            if case.get("problems", 0) >= 255:
                acc.cls("cli:error_count>=255")
            return res
        finally:
            shutil.rmtree(work, ignore_errors=True)

    hyp_search(acc, ID, "cli", shard, n, body, tier, max_rounds=2, shrink_cap_s=15)
    # every way a file can fail to parse, between a valid and an invalid file: counted as one problem, the other files
    # are still processed (one directed case per kind, spread over the shards)
    for j, bad in enumerate(UNPARSEABLE):
        if (j + 4) % nshards != shard:
            continue
        work = tempfile.mkdtemp(prefix="mfv_c20cli_")
        try:
            res, case, nt = cli_validate_case(model.RandCh(j), work, forced=[("valid", None), ("unparseable", bad), ("invalid", None)])
            acc.case(case, True)
            acc.cls("cli:unparseable_between_files")
            for dd in res:
                acc.violations.append({**dd.as_dict(), "search": "cli_unparseable", "shard": shard, "round": 0, "seed": env.verif_seed(), "tier": tier})
        finally:
            shutil.rmtree(work, ignore_errors=True)
    # the exit-status boundaries are always exercised (shard 0..3 take one each)
    fixed = [255, 256, 257, "unparseable"]
    if shard < len(fixed):
        work = tempfile.mkdtemp(prefix="mfv_c20cli_")
        try:
            f = fixed[shard]
            text = make_invalid(f) if isinstance(f, int) else "MAP\n NAME 'x'\n"
            with open(os.path.join(work, "b.map"), "w") as fh:
                fh.write(text)
            code, out, err = run_cli(["validate", "b.map"], work)
            acc.case(["boundary", f], True)
            acc.cls("cli:boundary")
            exp = min(f, 255) if isinstance(f, int) else 1
            if code == 0 or (isinstance(f, int) and f <= 255 and code != f):
                acc.violations.append({"bucket": f"cli_validate:exit_zero:{'parse' if f == 'unparseable' else 'count%d' % f}",
                                       "message": f"'mappyfile validate' exits with {code} for {f} problems", "case": {"boundary": f},
                                       "search": "cli_boundary", "shard": shard, "round": 0, "seed": env.verif_seed(), "tier": tier})
        finally:
            shutil.rmtree(work, ignore_errors=True)


def replay(case):
    if "boundary" in case:
        work = tempfile.mkdtemp(prefix="mfv_c20r_")
        try:
            f = case["boundary"]
            with open(os.path.join(work, "b.map"), "w") as fh:
                fh.write(make_invalid(f) if isinstance(f, int) else "MAP\n NAME 'x'\n")
            code, out, err = run_cli(["validate", "b.map"], work)
            if code == 0 or (isinstance(f, int) and f <= 255 and code != f):
                return [Discrepancy("cli_validate:exit", f"exit status {code} for {f} problems", case)]
            return []
        finally:
            shutil.rmtree(work, ignore_errors=True)
    if "cr_string" in case:
        import mappyfile

        text = case["cr_string"]
        p = os.path.join(tmpdir(), "cr.map")
        with open(p, "w", encoding="utf-8", newline="") as f:
            f.write(text)
        a, b = mappyfile.loads(text), mappyfile.open(p)
        d = refdict.equal_dicts(a, b)
        return [Discrepancy("front_end:open:cr", f"open() differs from loads(): {d[0][1]}", case)] if d else []
    if "doc" in case:
        return check_files(case["doc"], case["text"], case)
    return []
