"""C03 - pretty-printed text says exactly what the dictionary says.

The oracle never uses mappyfile's parser: an independent reader (mfv.reader) reads the
text written by dumps / dump / save and its event stream must equal the events derived
from the dictionary and the schema slot of every value (lexical class MapServer requires)."""
from __future__ import annotations

import copy
from collections import OrderedDict
import io
import os
import re
import tempfile

from .. import dictevents, env, exprs, model, options, reader, refdict, render, vocab
from ..harness import Acc, Discrepancy, hyp_search
from .c07 import via_dict_api

ID = "C03"
RULE = ("(a) Hypothesis-drawn document models turned into dictionaries by loads(render(model)) or directly through the dict API "
        "(nested Mapfile dicts, keys given in upper case), printed with drawn quote / indent / spacer / LF-CRLF through dumps, dump "
        "or save; (b) a Hypothesis RuleBasedStateMachine whose state is such a dictionary, with rules: set / replace / delete a "
        "keyword with a value of any admissible shape of its slot, append / insert / remove / swap child objects, assign a "
        "singleton child parsed from a snippet or made by create(), mappyfile.update with a patch, plant hidden __x__ keys, read a "
        "missing key (auto-creation). After every step the independent reader's event stream of the printed text must equal the "
        "events of the dictionary: same blocks in order and nesting, same keywords in order, each value in the lexical class "
        "MapServer requires for that slot (free string quoted with exactly the same characters; enum word bare; number / boolean "
        "bare and equal; binding / expression / regex / list expression unquoted verbatim; hex colour quoted), nothing from __x__ "
        "keys; an auto-created empty dict at a keyword without block form must make dumps raise. Non-trivial: >= 1 string-typed value "
        "and >= 1 value of another class; histories: >= 1 edit. Distinct = (dictionary fingerprint, options) / history.")
ASSUMPTIONS = [
    "strings containing the output quote are outside the guarantee; expression look-alike strings are not generated at multi-alternative keywords",
    "MapServer facts encoded as such: COMPOP takes a quoted string; the enum word END (GEOMTRANSFORM) must be quoted; CONFIG keys are case-insensitive",
    "newlinechar is LF or CRLF (the reader works on logical lines)",
]
TIERS = {
    "quick": {"examples": 12000, "machine_runs": 960, "machine_steps": 25, "budget_s": 110},
    "thorough": {"examples": 100000, "machine_runs": 5000, "machine_steps": 50, "budget_s": 1800},
}
PARTS = ["corpus_part", "search", "machine"]

# marker carried by every value planted under a __name__ key. Assembled at run time: Hypothesis feeds string literals it
# finds in the source of local modules into its text strategies, and a literal marker turned up as an ordinary string value
MARK = "".join(["ZZ", "HID", "DEN", "ZZ", "\u2063"])


# ------------------------------------------------------------------ expected lexical classes

def slot_of(type_, key):
    try:
        return vocab.slots(type_).get(key)
    except Exception:
        return None


def class_of_string(type_, key, s, in_list=False):
    """Lexical class MapServer requires for string value s at (type, keyword)."""
    slot = slot_of(type_, key)
    if slot is None:
        return None
    shapes = slot.shapes()
    for a in slot.alts:
        if a.shape == "enum" and s.lower() in [str(e).lower() for e in a.arg if isinstance(e, str)]:
            if key == "compop" or s.lower() == "end":
                return ("Q", s)
            return ("W", s)
    listy = any(x in shapes for x in ("bindpair", "mixedpair", "offsetpair"))
    if re.fullmatch(r"\[[^\]]*\]", s) and ("bind" in shapes or (in_list and listy)):
        return ("B", s)
    if s.startswith("(") and s.endswith(")") and "expr" in shapes:
        return ("E", s)
    if s.startswith("NOT (") and s.endswith(")") and "expr" in shapes:
        return ("E", s)
    if len(s) > 2 and s.startswith("/") and (s.endswith("/") or s.endswith("/i")) and "regex" in shapes:
        return ("R", s)
    if s.startswith("{") and s.endswith("}") and key == "expression":
        return ("L", s)
    if (s.endswith('"i') or s.endswith("'i")) and "expr" in shapes:
        return ("QI", s)
    return ("Q", s)


def expected_events(d, lenient_lookalikes=False):
    """-> list of expected reader events (without line numbers) or raises Unrepresentable.
    lenient_lookalikes (corpus files): a string that looks like an expression / binding / regex / list at a
    multi-alternative keyword is outside the guarantee (section 5 rule 3) - its class is not judged."""
    from .. import strings as _strings

    out = []
    for e in dictevents.dict_events(d):
        if e[0] == "attr":
            _, k, v, typ = e
            vals = v if isinstance(v, (list, tuple)) else [v]
            toks = []
            for x in vals:
                if isinstance(x, bool):
                    toks.append(("W", "TRUE" if x else "FALSE"))
                elif isinstance(x, (int, float)):
                    toks.append(("N", x))
                elif isinstance(x, str):
                    c = class_of_string(typ, k, x, in_list=isinstance(v, (list, tuple)))
                    if lenient_lookalikes and c is not None and c[0] == "Q":
                        sl = slot_of(typ, k)
                        if sl is not None and sl.is_multi and _strings.is_lookalike(x):
                            c = None
                    toks.append(c if c is not None else ("?", x))
                else:
                    raise Unrepresentable(f"{typ}.{k} = {x!r}")
            out.append(("attr", k, toks, typ))
        elif e[0] == "pair":
            out.append(("pair", ("Q", e[1]), ("Q", e[2])))
        elif e[0] == "config":
            out.append(("config", ("Q", e[1]), ("Q", e[2])))
        elif e[0] == "proj":
            out.append(("proj", e[1]))
        else:
            out.append(e)
    return out


def _visible_has(x, needle):
    if isinstance(x, dict):
        return any((needle in str(k) and not (str(k).startswith("__") and str(k).endswith("__"))) or
                   (not (str(k).startswith("__") and str(k).endswith("__")) and _visible_has(v, needle)) for k, v in x.items())
    if isinstance(x, (list, tuple)):
        return any(_visible_has(v, needle) for v in x)
    return isinstance(x, str) and needle in x


class Unrepresentable(Exception):
    pass


def same_event(got, exp):
    if got[0] != exp[0]:
        return False
    k = got[0]
    if k in ("open", "close"):
        return got[1] == exp[1]
    if k == "attr":
        if got[1] != exp[1] or len(got[2]) != len(exp[2]):
            return False
        for (c1, v1), (c2, v2) in zip(got[2], exp[2]):
            if c2 == "?":
                continue
            if c2 == "N":
                try:
                    if c1 == "Q" and exp[1] and _string_typed(exp, v2):
                        # a number at a string-typed keyword may be written as the equal quoted string (NAME 7 -> "7")
                        if v1 != str(v2):
                            return False
                        continue
                    if c1 != "N" or float(v1) != float(v2):
                        return False
                except ValueError:
                    return False
            elif c2 == "W":
                if c1 != "W" or v1.lower() != v2.lower():
                    return False
            elif (c1, v1) != (c2, v2):
                return False
        return True
    if k == "pair":
        return got[1] == exp[1] and got[2] == exp[2]
    if k == "config":
        return got[1][0] == "Q" and got[1][1].lower() == exp[1][1].lower() and got[2] == exp[2]
    if k == "proj":
        s = exp[1]
        if got[1] == "W":
            return s.upper() == "AUTO" and got[2].upper() == "AUTO"
        return got[1] == "Q" and got[2] == s
    if k == "numpair":
        return (got[1], got[2]) == (exp[1], exp[2])
    return False


def _string_typed(exp_event, value):
    typ = exp_event[3] if len(exp_event) > 3 else None
    slot = slot_of(typ, exp_event[1]) if typ else None
    return slot is not None and any(a.shape in ("string", "strpat") for a in slot.alts)


def strip_ev(ev):
    return [e[:-1] for e in ev if e[0] != "comment"]


def contains_quote(d, q):
    from .c01 import all_strings

    return any(q in s for s in all_strings(d))


def print_via(d, o, how):
    import mappyfile

    W = env.Workers.get()
    if how == "dumps":
        return W.dumps(d, **o)
    if how == "public_dumps":
        return mappyfile.dumps(d, **o)
    if how == "dump":
        f = io.StringIO(newline="")
        mappyfile.dump(d, f, **o)
        return f.getvalue()
    p = os.path.join(tempfile.gettempdir(), "mfv_c03_%d.map" % os.getpid())
    try:
        # saving replaces whatever the file held: an older, longer Mapfile is already there
        with open(p, "w", encoding="utf-8") as f:
            f.write("MAP\n" + "  LAYER\n    NAME \"stale\"\n  END\n" * 40 + "END\n")
        mappyfile.save(d, p, **o)
        with open(p, encoding="utf-8", newline="") as f:
            return f.read()
    finally:
        if os.path.exists(p):
            os.unlink(p)


def check_print(d, o, case, how="dumps", lenient_lookalikes=False):
    try:
        exp = expected_events(d, lenient_lookalikes)
    except Unrepresentable as e:
        return [Discrepancy("harness:unrepresentable", f"harness built an unrepresentable value: {e}", case)]
    try:
        text = print_via(d, o, how)
    except Exception as e:
        return [Discrepancy(f"print_raises:{type(e).__name__}", f"{how} raised {type(e).__name__}: {e!s:.120}", case)]
    if MARK in text and not _visible_has(d, MARK):   # (a visible value may by chance hold the marker itself)
        return [Discrepancy("hidden_key_printed", f"text contains data of a __name__ key: {text[:200]!r}", case)]
    try:
        ev, _ = reader.events(text)
    except reader.ReaderError as e:
        return [Discrepancy("unreadable", f"independent reader cannot read the output ({e}): {text[:300]!r}", case)]
    got = strip_ev(ev)
    n = min(len(got), len(exp))
    for i in range(n):
        if not same_event(got[i], exp[i]):
            key = exp[i][1] if exp[i][0] == "attr" else exp[i][0]
            cls = "/".join(c for c, _ in exp[i][2]) if exp[i][0] == "attr" else ""
            gcls = "/".join(c for c, _ in got[i][2]) if got[i][0] == "attr" else got[i][0]
            return [Discrepancy(f"event:{exp[i][0]}:{key}:{cls}->{gcls}", f"text says {got[i]!r:.200} where the dictionary says {exp[i]!r:.200}", case)]
    if len(got) != len(exp):
        return [Discrepancy("event_count", f"text has {len(got)} events, dictionary {len(exp)}: extra/missing {(got[n:] or exp[n:])[:2]!r:.200}", case)]
    return []


def draw_print_options(ch, d):
    qs = [q for q in ('"', "'") if not contains_quote(d, q)]
    if not qs:
        return None
    return dict(indent=ch.choice([0, 1, 2, 4, 8]), spacer=ch.choice([" ", "\t"]), quote=ch.choice(qs),
                newlinechar=ch.choice(["\n", "\r\n"]), end_comment=ch.bool(), align_values=ch.bool())


def corpus_part(acc: Acc, tier, shard, nshards):
    """every parseable corpus file under a few drawn print option sets"""
    from .. import corpus
    from ..harness import hyp_each

    items = list(corpus.load_all(shard, nshards, acc))

    def make_body(item):
        p, text, d = item

        def body(data):
            ch = model.Ch(data.draw)
            o = draw_print_options(ch, d)
            if o is None:
                acc.excl("corpus:both_quotes_in_strings")
                return []
            acc.case([corpus.rel(p), sorted(o.items())], True, sample={"file": corpus.rel(p), "options": o})
            acc.cls("corpus_cases")
            return check_print(d, o, {"file": corpus.rel(p), "options": o}, lenient_lookalikes=True)

        return body

    hyp_each(acc, ID, "corpus", shard, items, 2 if tier == "quick" else 12, make_body, tier, key=lambda it: corpus.rel(it[0]))


def search(acc: Acc, tier, shard, nshards):
    n = TIERS[tier]["examples"] // nshards
    W = env.Workers.get()
    counter = {"i": 0}

    def body(data):
        ch = model.Ch(data.draw)
        counter["i"] += 1
        forbid = ch.choice(['"', "'"])
        prof = model.Profile(max_depth=4, max_items=7, forbid=forbid, lookalike_multi=False, kv_roots=False)
        doc = model.any_document(model.Gen(ch, prof))
        src = ch.choice(["loads", "loads", "dict_api"])
        if src == "loads":
            text = render.render(doc).text
            try:
                d = W.loads(text, position=ch.bool())   # real __position__ data must never be printed either
            except Exception as e:
                return [Discrepancy(f"load:{type(e).__name__}", f"generated document rejected: {e!s:.120}", {"text": text})]
        else:
            d = via_dict_api([doc[0]]) if len(doc) == 1 else [via_dict_api([r]) for r in doc]
            # expressions set through the API are stored as given
        if ch.chance(1, 4):
            for r in (d if isinstance(d, list) else [d]):
                for _, o in objects_of(r):
                    if ch.bool():
                        o[ch.choice(["__note__", "__x__", "__tokens__"])] = ch.choice([MARK, [MARK, 1], {"k": MARK}])
            acc.cls("hidden_keys_planted")
        o = draw_print_options(ch, d)
        if o is None:
            acc.excl("both_quotes_in_strings")
            return []
        how = ch.choice(["dumps"] * 20 + ["public_dumps", "dump", "dump", "save", "save", "save"])
        s = model.stats_of(doc)
        nt = "str" in s["classes"] and len(s["classes"]) >= 2
        acc.case([doc, src, sorted(o.items())], nt, sample={"source": src, "options": o, "printed": W.dumps(d, **o)[:600]} if nt and len(acc.samples) < 2 else None)
        acc.cls("source:" + src)
        acc.cls("how:" + how)
        for c in s["classes"]:
            acc.cls("shape:" + c)
        return check_print(d, o, {"doc": doc, "source": src, "options": o, "how": how}, how)

    hyp_search(acc, ID, "dictionaries", shard, n, body, tier)


# ------------------------------------------------------------------ edit histories

def freeze(x, seen=None):
    """JSON form of a dictionary under test that keeps what a history can build and JSON cannot say: the class and
    default factory of each dict, tuples, and one object standing in two places (machine failures replay from it)."""
    if seen is None:
        seen = {}
    if isinstance(x, dict):
        if id(x) in seen:
            return {"$ref": seen[id(x)]}
        seen[id(x)] = n = len(seen)
        return {"$dict": n, "cls": type(x).__name__, "factory": getattr(x, "default_factory", None) is not None,
                "items": [[k, freeze(v, seen)] for k, v in dict.items(x)]}
    if isinstance(x, tuple):
        return {"$tuple": [freeze(v, seen) for v in x]}
    if isinstance(x, list):
        return {"$list": [freeze(v, seen) for v in x]}
    return x


def thaw(x, made=None):
    from mappyfile.ordereddict import CaseInsensitiveOrderedDict, DefaultOrderedDict

    if made is None:
        made = {}
    if isinstance(x, dict):
        if "$ref" in x:
            return made[x["$ref"]]
        if "$tuple" in x:
            return tuple(thaw(v, made) for v in x["$tuple"])
        if "$list" in x:
            return [thaw(v, made) for v in x["$list"]]
        cls = {"CaseInsensitiveOrderedDict": CaseInsensitiveOrderedDict, "DefaultOrderedDict": DefaultOrderedDict}.get(x["cls"])
        d = (cls(cls if x["factory"] else None) if cls else OrderedDict())
        made[x["$dict"]] = d
        for k, v in x["items"]:
            OrderedDict.__setitem__(d, k, thaw(v, made))
        return d
    return x


def objects_of(d, path=()):
    """[(path, obj)] for every object dict (with __type__ of an object type)"""
    out = []
    if isinstance(d, dict) and d.get("__type__") in vocab.all_types():
        out.append((path, d))
        for k, v in d.items():
            if isinstance(v, dict):
                out += objects_of(v, path + (k,))
            elif isinstance(v, list):
                for i, x in enumerate(v):
                    if isinstance(x, dict):
                        out += objects_of(x, path + (k, i))
    return out


def value_for(ch, type_, slot, alt):
    g = model.Gen(ch, model.Profile(forbid="\"'", lookalike_multi=False))
    a = g.atom(type_, slot, alt)
    if a is None:
        return None
    cls, v = a
    if cls == "expr":
        return v["src"]
    if cls == "hex":
        return v.lower()
    if cls == "hexpair":
        return [x.lower() for x in v]
    return v


def machine(acc: Acc, tier, shard, nshards):
    from hypothesis import HealthCheck, Phase, seed, settings, strategies as st
    from hypothesis.stateful import RuleBasedStateMachine, initialize, precondition, rule, run_state_machine_as_test

    import mappyfile
    from mappyfile.ordereddict import CaseInsensitiveOrderedDict as C

    cfg = TIERS[tier]
    runs = max(1, cfg["machine_runs"] // nshards)
    W = env.Workers.get()
    state = {"fail": None}
    OPTS = [dict(quote='"'), dict(quote="'", indent=2), dict(indent=0, spacer="\t", newlinechar="\r\n"), dict(end_comment=True, align_values=True)]

    class M(RuleBasedStateMachine):
        @initialize(data=st.data())
        def init(self, data):
            ch = model.Ch(data.draw)
            prof = model.Profile(max_depth=3, max_items=5, forbid="\"'", lookalike_multi=False, kv_roots=False, multi_root=False,
                                 symbolset=False, roots=["map", "layer", "class", "style", "label", "map", "layer"])
            doc = model.Gen(ch, prof).document()
            self.d = W.loads(render.render(doc).text)
            self.hist = [["init", render.render(doc).text]]
            self.edits = 0
            self._check()

        def _fail(self, bucket, msg, opts=None):
            try:
                frozen = freeze(self.d)
            except Exception:   # pragma: no cover - a dictionary the history made unserialisable
                frozen = None
            state["fail"] = (bucket, msg, list(self.hist), frozen, opts)
            raise AssertionError(msg)

        def _check(self, opts=None):
            o = dict(options.DEFAULT)
            o.pop("separate_complex_types")
            o.update(opts or {})
            # every fifth check writes through save (onto an existing file) or dump instead of dumps
            self.nchecks = getattr(self, "nchecks", 0) + 1
            how = "dumps" if self.nchecks % 5 else ("save" if self.nchecks % 10 else "dump")
            ds = check_print(self.d, o, {}, how)
            if ds:
                self._fail(ds[0].bucket, ds[0].message, dict(o, __how__=how))

        def _pick(self, ch):
            return ch.choice(objects_of(self.d))

        @rule(data=st.data())
        def set_keyword(self, data):
            ch = model.Ch(data.draw)
            path, o = self._pick(ch)
            t = o["__type__"]
            sl = vocab.slots(t)
            keys = [k for k, s in sl.items() if s.alts[0].shape not in ("object", "objlist", "kv", "kvinline", "points", "pointslist", "strlist") and k != "projection"
                    and not any(a.shape in ("object", "objlist") for a in s.alts)]
            k = ch.choice(keys)
            alt = ch.choice([a for a in sl[k].alts])
            v = value_for(ch, t, sl[k], alt)
            if v is None:
                return
            if isinstance(v, list) and ch.chance(1, 3):
                v = tuple(v)   # a tuple is as good as a list for a multi-value keyword set through the API
            spelled = ch.choice([k, k.upper(), k.capitalize()])
            if not isinstance(o, C):
                spelled = k  # create() returns a plain DefaultOrderedDict: keys are given in lower case there (documented convention)
            o[spelled] = v
            self.hist.append(["set", list(path), spelled, v])
            self.edits += 1
            self._check(ch.choice(OPTS))

        @rule(data=st.data())
        def set_projection(self, data):
            # PROJECTION through the API: a list / tuple of definition strings, or one string
            ch = model.Ch(data.draw)
            cands = [(p_, o_) for p_, o_ in objects_of(self.d) if "projection" in vocab.slots(o_["__type__"])]
            if not cands:
                return
            path, o = ch.choice(cands)
            v = ch.choice(["init=epsg:4326", ["init=epsg:3857"], ["proj=utm", "zone=11", "datum=WGS84"], ("proj=longlat", "no_defs"),
                           "AUTO", ["AUTO"], "+proj=merc +lon_0=0", ["+proj=laea", "+lat_0=52"]])
            spelled = ch.choice(["projection", "PROJECTION", "Projection"]) if isinstance(o, C) else "projection"
            o[spelled] = v
            self.hist.append(["set", list(path), spelled, list(v) if isinstance(v, tuple) else v])
            self.edits += 1
            self._check(ch.choice(OPTS))

        @rule(data=st.data())
        def delete_keyword(self, data):
            ch = model.Ch(data.draw)
            path, o = self._pick(ch)
            keys = [k for k in o.keys() if not k.startswith("__") and not (o["__type__"] == "layer" and k == "type")]
            if not keys:
                return
            k = ch.choice(keys)
            del o[ch.choice([k, k.upper()]) if isinstance(o, C) else k]
            self.hist.append(["del", list(path), k])
            self.edits += 1
            self._check()

        @rule(data=st.data())
        def edit_children(self, data):
            ch = model.Ch(data.draw)
            path, o = self._pick(ch)
            t = o["__type__"]
            edges = [(k, c, lst) for (p, k, c, lst) in vocab.child_edges() if p == t and lst]
            if not edges:
                return
            k, c, _ = ch.choice(edges)
            op = ch.choice(["append", "insert", "remove", "swap", "append_created", "append_plain", "share"])
            if k not in o and not isinstance(o, C):
                o[k] = []   # create() objects have no default factory
            lst = o[k]   # auto-creates [] for object-list keys on Mapfile dicts
            if op in ("append", "insert"):
                g = model.Gen(ch, model.Profile(max_depth=1, max_items=3, forbid="\"'", lookalike_multi=False))
                child = W.loads(render.render([g.obj(c, 0)]).text)
                if op == "append":
                    lst.append(child)
                else:
                    lst.insert(ch.int(0, len(lst)), child)
            elif op == "share":
                # the same Python object placed a second time (one parsed STYLE given to two CLASSes): the dictionary
                # holds it twice, so the text must say it twice
                def holds(x, target):
                    if x is target:
                        return True
                    if isinstance(x, dict):
                        return any(holds(v, target) for kk, v in x.items() if not str(kk).startswith("__"))
                    if isinstance(x, (list, tuple)):
                        return any(holds(v, target) for v in x)
                    return False

                cands = [x for _, x in objects_of(self.d) if x.get("__type__") == c and not holds(x, o)]
                if not cands:
                    return
                lst.append(ch.choice(cands))
            elif op == "append_created":
                if c == "label":
                    return  # create('label') carries BACKGROUNDSHADOWSIZE false (known finding KF12)
                lst.append(mappyfile.create(c))
            elif op == "append_plain":
                n = C(C)
                n["__type__"] = c
                lst.append(n)
            elif op == "remove" and lst:
                lst.pop(ch.int(0, len(lst) - 1))
            elif op == "swap" and len(lst) > 1:
                i, j = ch.int(0, len(lst) - 1), ch.int(0, len(lst) - 1)
                lst[i], lst[j] = lst[j], lst[i]
            self.hist.append(["children", list(path), k, op])
            self.edits += 1
            self._check(ch.choice(OPTS))

        @rule(data=st.data())
        def assign_singleton(self, data):
            ch = model.Ch(data.draw)
            path, o = self._pick(ch)
            t = o["__type__"]
            edges = [(k, c) for (p, k, c, lst) in vocab.child_edges() if p == t and not lst and c != "symbol"]
            if not edges:
                return
            k, c = ch.choice(edges)
            g = model.Gen(ch, model.Profile(max_depth=1, max_items=3, forbid="\"'", lookalike_multi=False))
            o[k] = W.loads(render.render([g.obj(c, 0)]).text)
            self.hist.append(["assign", list(path), k])
            self.edits += 1
            self._check()

        @rule(data=st.data())
        def update_patch(self, data):
            ch = model.Ch(data.draw)
            path, o = self._pick(ch)
            t = o["__type__"]
            sl = vocab.slots(t)
            k = ch.choice([k for k, s in sl.items() if s.shapes() == ["string"] and not s.alts[0].node.get("maxLength")] or ["name"])
            if k not in sl:
                return
            patch = {k: ch.choice(["patched", "x y", "Z"])}
            mappyfile.update(o, patch)
            self.hist.append(["update", list(path), patch])
            self.edits += 1
            self._check()

        @rule(data=st.data())
        def plant_hidden(self, data):
            ch = model.Ch(data.draw)
            path, o = self._pick(ch)
            hk = ch.choice(["__position__", "__note__", "__x__", "__tokens__"])
            o[hk] = {"line": 1, "column": 1, "m": MARK} if hk == "__position__" else ch.choice([MARK, [MARK], {"k": MARK}])
            self.hist.append(["hidden", list(path), hk])
            self._check()

        @rule(data=st.data())
        def read_missing(self, data):
            ch = model.Ch(data.draw)
            path, o = self._pick(ch)
            if getattr(o, "default_factory", None) is None:
                return  # objects made by create() raise KeyError for a missing key: nothing is auto-created
            t = o["__type__"]
            sl = vocab.slots(t)
            keys = [k for k, s in sl.items() if k not in o and not any(a.shape in ("object", "objlist", "kv", "kvinline", "strlist", "pointslist") for a in s.alts)
                    and k not in ("projection", "points", "pattern")]
            if not keys:
                return
            k = ch.choice(keys)
            v = o[k]   # auto-creates an empty dict
            self.hist.append(["read_missing", list(path), k])
            if v != {}:
                self._fail("autocreate", f"reading missing {t}.{k} gave {v!r}")
            try:
                text = W.dumps(self.d)
            except Exception:
                text = None
            if text is not None:
                self._fail(f"empty_dict_printed:{'enum' if 'enum' in sl[k].shapes() else 'other'}",
                           f"after reading the missing key {t}.{k} dumps wrote text instead of raising: {[l for l in text.split(chr(10)) if k.upper() in l][:1]}")
            del o[k]
            self._check()

        def teardown(self):
            h = getattr(self, "hist", [])
            acc.evaluations += max(1, len(h))
            if getattr(self, "edits", 0) >= 1:
                acc.nontrivial.add(env.fp(h))
            for x in h:
                acc.cls("machine:" + x[0])

    masked = set()
    for round_ in range(4):
        state["fail"] = None

        try:
            run_state_machine_as_test(
                seed(env.shard_seed(ID + "/machine", shard, round_))(M),
                settings=settings(max_examples=runs, stateful_step_count=cfg["machine_steps"], deadline=None, database=None,
                                  report_multiple_bugs=False, suppress_health_check=list(HealthCheck), phases=(Phase.generate, Phase.shrink)),
            )
        except AssertionError:
            pass
        except Exception:
            if state["fail"] is None:
                raise
        if state["fail"] is None:
            break
        b, msg, hist, frozen, fopts = state["fail"]
        if b in masked:
            break
        masked.add(b)
        acc.violations.append({"bucket": "history:" + b, "message": f"after {[h[0] for h in hist]}: {msg}",
                               "case": {"history": hist, "frozen": frozen, "options": fopts},
                               "search": "machine", "shard": shard, "round": round_, "seed": env.verif_seed(), "tier": tier})
        break
    if len(acc.samples) < 3:
        acc.samples.append({"history_rules": ["set_keyword", "delete_keyword", "edit_children", "assign_singleton", "update_patch", "plant_hidden", "read_missing"]})


def replay(case):
    W = env.Workers.get()
    if case.get("frozen") is not None and case.get("options"):
        # a machine failure: the dictionary the history had reached, rebuilt with its classes and shared objects
        o = dict(case["options"])
        how = o.pop("__how__", "dumps")
        return check_print(thaw(case["frozen"]), o, case, how)
    if "file" in case:
        from .. import corpus

        d = W.loads(corpus.read(os.path.join(env.REPO, case["file"])))
        return check_print(d, case["options"], case, lenient_lookalikes=True)
    if "doc" in case:
        doc = case["doc"]
        if case.get("source") == "dict_api":
            d = via_dict_api([doc[0]]) if len(doc) == 1 else [via_dict_api([r]) for r in doc]
        else:
            d = W.loads(render.render(doc).text)
        return check_print(d, case["options"], case, case.get("how", "dumps"))
    if "text" in case:
        d = W.loads(case["text"])
        for step in case.get("steps", []):
            o = d
            for p in step["path"]:
                o = o[p]
            if step["op"] == "read_missing":
                o[step["key"]]
                try:
                    W.dumps(d)
                except Exception:
                    del o[step["key"]]
                    continue
                return [Discrepancy("empty_dict_printed", f"dumps wrote text for an auto-created empty dict at {step['key']}", case)]
            if step["op"] == "set":
                o[step["key"]] = tuple(step["value"]) if step.get("tuple") else step["value"]
        o = dict(options.DEFAULT)
        o.pop("separate_complex_types")
        o.update(case.get("options", {}))
        return check_print(d, o, case)
    return []
