"""C15 - INCLUDE expansion equals textual substitution, bounded at 5 levels."""
from __future__ import annotations

import contextlib
import os
import shutil
import sys
import tempfile

from .. import env, model, refdict, render
from ..harness import Acc, Discrepancy, hyp_search

ID = "C15"
RULE = ("Hypothesis draws a document model, renders it one keyword per line and cuts it at block and keyword-line boundaries into a "
        "tree of files (fan-out <= 4, depth 0..7, nested sub-directories, paths relative to the root file's directory or absolute, "
        "names from [A-Za-z0-9_.-], double-quoted / single-quoted / bare, optional trailing # comment, INCLUDE in any letter case, LF "
        "or CRLF files) written under a fresh temporary directory; the root is loaded through open(absolute path), open(relative "
        "path) from another working directory, load(file object) and loads(text) with the working directory set to the root "
        "directory. Oracle: equals loads(flattened text) where the harness substituted every INCLUDE line by the file's content; "
        "trees deeper than 5 nested files and cyclic trees must raise within a bounded number of file opens (counted by an audit "
        "hook); a missing file must raise OSError; with expand_includes=False the directives are kept as an 'include' list in "
        "source order and dumps writes them back so that re-loading gives the same dictionary. Non-trivial: >= 2 files at depth >= "
        "2, or depth exactly 5 / 6, or a working directory different from the root directory. Distinct = the file tree.")
ASSUMPTIONS = [
    "INCLUDE directives stand on their own line, outside strings and comments; file names contain no whitespace, # or quotes",
    "working-directory changes happen inside single-threaded worker processes",
]
TIERS = {
    "quick": {"examples": 1600, "budget_s": 110},
    "thorough": {"examples": 15000, "budget_s": 1800},
}
PARTS = ["search"]

_audit = {"on": False, "opens": 0, "installed": False}


def _hook(event, args):
    if _audit["on"] and event == "open":
        _audit["opens"] += 1


def count_opens():
    if not _audit["installed"]:
        sys.addaudithook(_hook)
        _audit["installed"] = True
    _audit["opens"] = 0
    _audit["on"] = True


def stop_count():
    _audit["on"] = False
    return _audit["opens"]


# ------------------------------------------------------------------ units

def units_of(obj, ind=0):
    """-> ("block", opener, [units], end) for an object"""
    from ..render import Canonical, atom_texts, fmt_num, q

    s = Canonical()
    pad = "  " * ind
    p2 = pad + "  "
    body = []
    for it in obj["items"]:
        k = it[0]
        if k == "obj":
            body.append(units_of(it[1], ind + 1))
        elif k == "attr":
            body.append(("line", p2 + it[1].upper() + " " + " ".join(x for x, _ in atom_texts(it[2], it[3], s))))
        elif k == "kv":
            pairs = [("line", p2 + "  " + q(a, s.quote(a)) + " " + q(b, s.quote(b))) for a, b in it[2]]
            body.append(("block", p2 + it[1].upper(), pairs, p2 + "END"))
        elif k == "config":
            body.append(("line", p2 + "CONFIG " + q(it[1], s.quote(it[1])) + " " + q(it[2], s.quote(it[2]))))
        elif k == "pairs":
            body.append(("block", p2 + it[1].upper(), [("line", p2 + "  " + fmt_num(a) + " " + fmt_num(b)) for a, b in it[2]], p2 + "END"))
        elif k == "proj":
            inner = [("line", p2 + "  " + it[1])] if isinstance(it[1], str) else [("line", p2 + "  " + q(x, s.quote(x))) for x in it[1]]
            body.append(("block", p2 + "PROJECTION", inner, p2 + "END"))
        elif k == "rep":
            body.append(("line", p2 + it[1].upper() + " " + q(it[2], s.quote(it[2]))))
    return ("block", pad + obj["t"].upper(), body, pad + "END")


def flat_lines(units):
    out = []
    for u in units:
        if u[0] == "line":
            out.append(u[1])
        else:
            out.append(u[1])
            out.extend(flat_lines(u[2]))
            out.append(u[3])
    return out


NAMES = ["a.map", "layers.map", "inc_1.map", "x-y.inc", "B.MAP", "styles.txt", "f2", "web_meta.map", "z9.map"]
DIRS = ["", "", "inc/", "sub/deeper/", "a.b/", "inc/more/"]


class Tree:
    def __init__(self, ch, root_dir, max_depth, force_depth=None, reuse=()):
        self.ch, self.root_dir = ch, root_dir
        self.reuse = list(reuse)   # file names of an earlier tree in the same directory, to be overwritten
        self.files = {}      # relative path -> text
        self.n = 0
        self.max_depth = max_depth
        self.force_depth = force_depth
        self.depth_reached = 0
        self.nfiles_at_depth2 = 0
        self.include_lines = []

    def new_name(self):
        self.n += 1
        if self.reuse:
            return self.reuse.pop(0)
        d = self.ch.choice(DIRS)
        nm = self.ch.choice(NAMES)
        return f"{d}{self.n}_{nm}"

    def include_line(self, rel):
        ch = self.ch
        path = rel if ch.chance(3, 4) else os.path.join(self.root_dir, rel)
        style = ch.int(0, 2)
        p = '"' + path + '"' if style == 0 else "'" + path + "'" if style == 1 else path
        kw = ch.choice(["INCLUDE", "include", "Include", "INCLUDE"])
        line = ch.choice(["", "  ", "\t", "    "]) + kw + ch.choice([" ", "  ", "\t"]) + p
        if ch.chance(1, 4):
            line += ch.choice([" # included", "  #c", " # \"quoted\" comment"])
        self.include_lines.append(line)
        return line

    def build(self, units, depth, force_chain=False):
        """-> lines for this file level; may create include files of depth+1"""
        ch = self.ch
        out = []
        i = 0
        forced = force_chain
        while i < len(units):
            cut = forced or (depth < self.max_depth and ch.chance(1, 3))
            if cut:
                n = ch.int(1, min(3, len(units) - i))
                rel = self.new_name()
                self.depth_reached = max(self.depth_reached, depth + 1)
                if depth + 1 >= 2:
                    self.nfiles_at_depth2 += 1
                want_more = self.force_depth is not None and depth + 1 < self.force_depth
                content = self.build_chunk(units[i:i + n], depth + 1, want_more)
                self.files[rel] = content
                out.append(self.include_line(rel))
                i += n
                forced = False
            else:
                u = units[i]
                if u[0] == "line":
                    out.append(u[1])
                else:
                    out.append(u[1])
                    out.extend(self.build(u[2], depth))
                    out.append(u[3])
                i += 1
        return out

    def build_chunk(self, units, depth, force_chain):
        ch = self.ch
        if force_chain:
            # keep nesting: wrap everything of this chunk into one further include
            lines = self.build(units, depth, force_chain=True)
        else:
            lines = self.build(units, depth)
        nl = ch.choice(["\n", "\n", "\r\n"])
        return nl.join(lines) + ch.choice(["", nl])


def flatten(text, files, root_dir, depth=0):
    """The harness's own textual substitution (no depth limit)."""
    out = []
    for line in text.split("\n"):
        s = line.strip()
        if s.lower().startswith("include") and len(s.split()) >= 2:
            p = s.split("#")[0].split()[1].strip("'").strip('"')
            rel = os.path.relpath(p, root_dir) if os.path.isabs(p) else p
            out.append(flatten(files[rel], files, root_dir, depth + 1))
        else:
            out.append(line)
    return "\n".join(out)


def write_tree(base, files):
    for rel, text in files.items():
        p = os.path.join(base, rel)
        os.makedirs(os.path.dirname(p), exist_ok=True)
        with open(p, "w", encoding="utf-8", newline="") as f:
            f.write(text)


def load_entry(entry, root_path, root_dir, other_dir, expand=True):
    import mappyfile

    kw = {} if expand else {"expand_includes": False}
    if entry == "open_abs":
        return mappyfile.open(root_path, **kw)
    if entry == "open_rel":
        with contextlib.chdir(other_dir):
            return mappyfile.open(os.path.relpath(root_path, other_dir), **kw)
    if entry == "load_fp":
        with contextlib.chdir(other_dir):
            with open(root_path, encoding="utf-8", newline="") as f:
                return mappyfile.load(f, **kw)
    if entry == "loads_cwd":
        with open(root_path, encoding="utf-8", newline="") as f:
            text = f.read()
        with contextlib.chdir(root_dir):
            return mappyfile.loads(text, **kw)
    raise ValueError(entry)


ENTRIES = ["open_abs", "open_rel", "load_fp", "loads_cwd"]


def run_tree(doc, ch, acc, variant, doc2=None):
    W = env.Workers.get()
    base = tempfile.mkdtemp(prefix="mfv_c15_")
    try:
        root_dir = os.path.join(base, "proj", "maps")
        other_dir = os.path.join(base, "elsewhere")
        os.makedirs(root_dir)
        os.makedirs(other_dir)
        force = None
        if variant == "depth5":
            force = 5
        elif variant == "depth6":
            force = ch.choice([6, 6, 7])
        t = Tree(ch, root_dir, max_depth=4 if force is None else force, force_depth=force)
        units = [units_of(o) for o in doc]
        root_lines = t.build(units, 0, force_chain=force is not None)
        nl = ch.choice(["\n", "\r\n"])
        root_text = nl.join(root_lines) + nl
        files = dict(t.files)
        files["root.map"] = root_text
        if variant == "cycle" and t.files:
            victim = ch.choice(sorted(t.files))
            files[victim] = files[victim] + "\n" + "INCLUDE 'root.map'" + "\n"
        missing = None
        if variant == "missing" and t.files:
            missing = ch.choice(sorted(t.files))
        write_tree(root_dir, {k: v for k, v in files.items() if k != missing})
        root_path = os.path.join(root_dir, "root.map")
        entry = ch.choice(ENTRIES)
        case = {"files": files, "entry": entry, "variant": variant, "missing": missing}
        depth = t.depth_reached
        nt = (t.nfiles_at_depth2 >= 2) or depth in (5, 6) or entry in ("open_rel", "load_fp")
        acc.case(files, nt, sample={"variant": variant, "entry": entry, "depth": depth, "files": {k: v[:200] for k, v in list(files.items())[:4]}} if len(files) >= 3 else None)
        acc.cls("variant:" + variant)
        acc.cls("entry:" + entry)
        acc.cls("depth:%d" % depth)
        acc.cls("files:%d" % min(len(files), 8))
        if any(os.path.isabs(l.split("#")[0].split()[1].strip("'\"")) for l in t.include_lines):
            acc.cls("absolute_include_path")
        if any("\r\n" in v for v in files.values()):
            acc.cls("crlf_file")
        res = check_tree(files, root_dir, other_dir, root_path, entry, variant, missing, depth, case)
        if res or variant != "tree" or doc2 is None or not t.files or not ch.chance(1, 2):
            return res
        # the files decide at the time of each load: the same paths, rewritten (or one removed), loaded again
        if ch.chance(1, 4):
            missing2 = ch.choice(sorted(t.files))
            os.remove(os.path.join(root_dir, missing2))
            files2, variant2, depth2 = files, "missing", depth
            acc.cls("reload:file_removed")
        else:
            t2 = Tree(ch, root_dir, max_depth=4, reuse=sorted(t.files))
            root_lines2 = t2.build([units_of(o) for o in doc2()], 0)
            files2 = dict(t2.files)
            files2["root.map"] = nl.join(root_lines2) + nl
            missing2, variant2, depth2 = None, "tree", t2.depth_reached
            write_tree(root_dir, files2)
            acc.cls("reload:files_rewritten", len(set(files2) & set(files)) - 1)
        entry2 = ch.choice(ENTRIES)
        case2 = dict(case, then={"files": files2, "entry": entry2, "variant": variant2, "missing": missing2})
        acc.case(["reload", files2, missing2], True)
        res = check_tree(files2, root_dir, other_dir, root_path, entry2, variant2, missing2, depth2, case2)
        return [Discrepancy("reload:" + d.bucket, "after an earlier load of the same paths with other content: " + d.message, d.case) for d in res]
    finally:
        shutil.rmtree(base, ignore_errors=True)


def check_tree(files, root_dir, other_dir, root_path, entry, variant, missing, depth, case):
    W = env.Workers.get()
    if not any(k != "root.map" for k in files):
        variant = "plain"
    expect_error = variant == "cycle" or (variant == "missing" and missing) or depth >= 6
    count_opens()
    try:
        d = load_entry(entry, root_path, root_dir, other_dir)
        err = None
    except Exception as e:
        d, err = None, e
    finally:
        opens = stop_count()
    if opens > 5000:
        return [Discrepancy("unbounded_opens", f"{opens} file opens for a tree of {len(files)} files ({variant})", case)]
    if expect_error:
        if err is None:
            return [Discrepancy(f"no_error:{variant if depth < 6 else 'depth%d' % depth}", f"{variant} tree (depth {depth}) was loaded without an error through {entry}", case)]
        if variant == "missing" and not isinstance(err, OSError):
            return [Discrepancy("missing_file_error_type", f"missing include raised {type(err).__name__}, expected an I/O error", case)]
        return []
    if err is not None:
        return [Discrepancy(f"load_failed:{type(err).__name__}:depth{depth}", f"{entry} failed on a tree of depth {depth}: {type(err).__name__}: {err!s:.120}", case)]
    flat = flatten(files["root.map"], files, root_dir)
    try:
        exp = W.loads(flat)
    except Exception as e:
        return [Discrepancy(f"flat_load:{type(e).__name__}", f"flattened text rejected: {e!s:.100}", dict(case, flat=flat))]
    diffs = refdict.equal_dicts(exp, d)
    if diffs:
        return [Discrepancy(f"content:{entry}", f"{entry}: expanded result differs from textual substitution at {diffs[0][0]}: {diffs[0][1]}", case)]
    return []


def check_no_expand(doc, ch, acc):
    """expand_includes=False: directives kept as data in source order and written back unchanged."""
    W = env.Workers.get()
    from ..render import Canonical

    # INCLUDE keywords inside objects (model 'rep' items named include)
    text = render.render(doc).text
    case = {"text": text, "no_expand": True}
    try:
        d = W.loads(text, expand=False)
    except Exception as e:
        return [Discrepancy(f"no_expand_load:{type(e).__name__}", f"expand_includes=False load failed: {e!s:.100}", case)]
    exp = refdict.refdict(doc)
    diffs = refdict.compare(exp, d)
    if diffs:
        return [Discrepancy("no_expand_data", f"directives not kept as data: at {diffs[0][0]}: {diffs[0][1]}", case)]
    try:
        out = W.dumps(d)
        d2 = W.loads(out, expand=False)
    except Exception as e:
        return [Discrepancy(f"no_expand_print:{type(e).__name__}", f"writing back INCLUDE directives failed: {e!s:.100}", case)]
    def _incs(x, out):
        # the directives that survive in the dictionary (a singleton block given twice keeps only its last occurrence)
        if isinstance(x, dict):
            for k, v in x.items():
                if k == "include" and isinstance(v, list):
                    out.extend(v)
                else:
                    _incs(v, out)
        elif isinstance(x, list):
            for v in x:
                _incs(v, out)
        return out

    inc_model = _incs(exp, [])
    inc_out = [l.split(None, 1)[1].strip().strip('"') for l in out.split("\n") if l.strip().upper().startswith("INCLUDE ")]
    acc.cls("no_expand_includes", len(inc_model))
    if sorted(inc_model) != sorted(inc_out):
        return [Discrepancy("no_expand_writeback", f"INCLUDE lines written back {inc_out} differ from the directives {inc_model}", case)]
    from .c01 import licence_walk

    rt = licence_walk(d, d2)
    if rt:
        return [Discrepancy("no_expand_roundtrip", f"re-loading the written text differs at {rt[0][0]}: {rt[0][1]}", case)]
    return []


def search(acc: Acc, tier, shard, nshards):
    n = TIERS[tier]["examples"] // nshards
    prof = model.Profile(max_depth=3, max_items=6, includes=False, kv_roots=False, symbolset=False, forbid='"')
    prof_inc = model.Profile(max_depth=3, max_items=6, includes=True, kv_roots=False, forbid='"', lookalike_multi=False)

    def body(data):
        ch = model.Ch(data.draw)
        variant = ch.choice(["tree", "tree", "tree", "tree", "depth5", "depth6", "cycle", "missing", "no_expand"])
        if variant == "no_expand":
            doc = model.Gen(ch, prof_inc).document()
            acc.case(["no_expand", doc], any(it[0] == "rep" and it[1] == "include" for r in doc for _, o in model.walk(r) for it in o["items"]))
            acc.cls("variant:no_expand")
            return check_no_expand(doc, ch, acc)
        doc = model.Gen(ch, prof).document()
        return run_tree(doc, ch, acc, variant, doc2=lambda: model.Gen(ch, prof).document())

    hyp_search(acc, ID, "trees", shard, n, body, tier)


def replay(case):
    if case.get("no_expand"):
        return []
    base = tempfile.mkdtemp(prefix="mfv_c15r_")
    try:
        files = case["files"]
        # absolute include paths of the saved case point into a removed directory: rewrite them relative
        old_root = None
        for v in files.values():
            for line in v.split("\n"):
                s = line.strip()
                if s.lower().startswith("include") and len(s.split()) >= 2:
                    p = s.split("#")[0].split()[1].strip("'\"")
                    if os.path.isabs(p) and "/proj/maps/" in p:
                        old_root = p.split("/proj/maps/")[0] + "/proj/maps"
        root_dir = os.path.join(base, "proj", "maps")
        other = os.path.join(base, "elsewhere")
        os.makedirs(root_dir)
        os.makedirs(other)
        if old_root:
            files = {k: v.replace(old_root, root_dir) for k, v in files.items()}
        missing = case.get("missing")
        write_tree(root_dir, {k: v for k, v in files.items() if k != missing})
        depth = _depth(files, "root.map", root_dir, set())
        res = check_tree(files, root_dir, other, os.path.join(root_dir, "root.map"), case["entry"], case["variant"], missing, depth, case)
        then = case.get("then")
        if res or not then:
            return res
        files2 = then["files"]
        if old_root:
            files2 = {k: v.replace(old_root, root_dir) for k, v in files2.items()}
        if then.get("missing"):
            os.remove(os.path.join(root_dir, then["missing"]))
        else:
            write_tree(root_dir, files2)
        depth2 = _depth(files2, "root.map", root_dir, set())
        res = check_tree(files2, root_dir, other, os.path.join(root_dir, "root.map"), then["entry"], then["variant"], then.get("missing"), depth2, case)
        return [Discrepancy("reload:" + d.bucket, "after an earlier load of the same paths with other content: " + d.message, d.case) for d in res]
    finally:
        shutil.rmtree(base, ignore_errors=True)


def _depth(files, name, root_dir, seen):
    if name in seen or name not in files:
        return 99 if name in seen else 0
    best = 0
    for line in files[name].split("\n"):
        s = line.strip()
        if s.lower().startswith("include") and len(s.split()) >= 2:
            p = s.split("#")[0].split()[1].strip("'\"")
            rel = os.path.relpath(p, root_dir) if os.path.isabs(p) else p
            best = max(best, 1 + _depth(files, rel, root_dir, seen | {name}))
    return best
