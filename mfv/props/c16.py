"""C16 - pretty-printer layout contract."""
from __future__ import annotations

import copy
import os
import re

from .. import corpus, dictevents, env, model, options, reader, render
from ..harness import Acc, Discrepancy, hyp_each, hyp_search
from .c01 import all_strings
from .c06 import optkey

ID = "C16"
RULE = ("Corpus files and Hypothesis-drawn documents (plain loads, no loaded comments) x option sets with a line-break "
        "newlinechar (drawn; thorough: all 576 on corpus files). The independent reader splits dumps output into logical "
        "lines and checks: every line break outside quoted strings is newlinechar; opener / keyword line / END alone on its "
        "line with indentation exactly spacer*indent*depth; each block closed by END at the opener's indentation, spelled "
        "'END' or 'END # TYPE' (end_comment); the sequence of openers / keyword lines / closers equals the dictionary's "
        "structure; with align_values the simple-keyword values of one object start in one column = indentation + first "
        "multiple of max(indent,1) past the longest such keyword. Non-trivial: depth >= 3 and >= 1 of {key-value block, "
        "PROJECTION, POINTS, PATTERN, CONFIG, repeated keyword}, non-default options. Distinct = (document, option set).")
ASSUMPTIONS = [
    "multi-line string values are excepted from the per-line rule (the reader treats a quoted string as one token)",
    "key-value block contents and CONFIG lines are excluded from the alignment rule (the property speaks of simple keywords of an object)",
]
TIERS = {
    "quick": {"examples": 8000, "sets_per_doc": 4, "corpus_sets": 10, "budget_s": 110},
    "thorough": {"examples": 40000, "sets_per_doc": 8, "corpus_sets": 150, "budget_s": 1800},
}
PARTS = ["corpus_part", "search"]

OPENERS = reader.BLOCKS | reader.KV | reader.OTHER_BLOCKS
ALIGN_EXCLUDED = {"config"}


def check_layout(text, d, o):
    """-> list of (kind, message)"""
    errs = []
    nl = o["newlinechar"]
    unit = o["spacer"] * o["indent"]
    try:
        ev, lines = reader.events(text)
    except reader.ReaderError as e:
        return [("unreadable", str(e))]
    toks = [t for ln in lines for t in ln.toks + ln.comments]
    # 1. line breaks outside quoted strings
    inside = [False] * (len(text) + 1)
    for t in toks:
        if t.cls in ("Q", "QI"):
            for k in range(t.off, t.off + len(t.raw)):
                inside[k] = True
    for i, c in enumerate(text):
        if inside[i]:
            continue
        if c == "\n" and nl == "\r\n" and (i == 0 or text[i - 1] != "\r"):
            errs.append(("linebreak", f"bare LF at offset {i} with newlinechar CRLF"))
            break
        if c == "\r" and (nl == "\n" or i + 1 >= len(text) or text[i + 1] != "\n"):
            errs.append(("linebreak", f"stray CR at offset {i}"))
            break
    # 2. structure equals the dictionary's
    exp = [(e[0], e[1] if e[0] in ("open", "close", "attr") else None) for e in dictevents.dict_events(d)]
    got = [(e[0], e[1] if e[0] in ("open", "close", "attr") else None) for e in ev if e[0] != "comment"]
    if exp != got:
        k = next((i for i, (a, b) in enumerate(zip(exp, got)) if a != b), min(len(exp), len(got)))
        errs.append(("structure", f"line structure differs from the dictionary at event {k}: expected {exp[k:k + 3]}, text has {got[k:k + 3]}"))
        return errs
    # 3. indentation, END lines, alignment
    stack = []
    groups = {}
    bid = 0
    for ln in lines:
        if not ln.toks:
            continue
        first = ln.toks[0]
        word = first.val.lower() if first.cls == "W" else None
        top = stack[-1][0] if stack else None
        if word == "end" and len(ln.toks) == 1:
            typ, b, lead0 = stack.pop()
            if ln.lead != unit * len(stack):
                errs.append(("end_indent", f"END of {typ} at line {ln.line} indented {ln.lead!r}, expected {unit * len(stack)!r}"))
            if ln.lead != lead0:
                errs.append(("end_vs_opener", f"END of {typ} at line {ln.line} not at its opener's indentation"))
            phys = text.split("\n")[ln.line - 1].rstrip("\r")
            rest = phys[len(ln.lead):]
            want = "END # " + typ.upper() if o["end_comment"] else "END"
            if rest != want:
                errs.append(("end_text", f"END line of {typ} at line {ln.line} is {rest!r}, expected {want!r}"))
            continue
        depth = len(stack)
        if ln.lead != unit * depth:
            errs.append(("indent", f"line {ln.line} ({first.raw}) indented {ln.lead!r}, expected {unit * depth!r} (depth {depth})"))
        if len(ln.toks) == 1 and word in OPENERS and top not in reader.KV and top != "projection":
            bid += 1
            stack.append((word, bid, ln.lead))
            continue
        if top in reader.BLOCKS and word not in ALIGN_EXCLUDED and first.cls == "W" and len(ln.toks) >= 2:
            groups.setdefault(stack[-1][1], []).append((len(first.raw), ln.toks[1].col, len(ln.lead), ln.line, first.raw))
    if o["align_values"]:
        for b, ls in groups.items():
            m = max(k for k, _, _, _, _ in ls)
            ind = max(o["indent"], 1)
            off = (m // ind + 1) * ind
            for k, vc, il, line, kw in ls:
                if vc != il + off + 1:
                    errs.append(("align", f"value of {kw} at line {line} starts in column {vc}, expected {il + off + 1} (longest keyword {m}, indent {o['indent']})"))
                    break
    # (without align_values the statement says nothing about the gap between keyword and value)
    return errs


def feat(o):
    return "+".join(k for k in ("align_values", "end_comment", "separate_complex_types") if o.get(k)) or "plain"


def run_case(d, o, case):
    W = env.Workers.get()
    try:
        text = W.dumps(copy.deepcopy(d), **o)
    except Exception as e:
        return [Discrepancy(f"dumps:{type(e).__name__}", f"dumps raised {type(e).__name__}: {e!s:.120}", case)]
    dd = copy.deepcopy(d)
    if o["separate_complex_types"]:
        # the dictionary the text must mirror is the one printed (keys regrouped)
        dd = W.loads(text)
    out = []
    for kind, msg in check_layout(text, dd, o):
        out.append(Discrepancy(f"{kind}:{feat(o)}:i{min(o['indent'], 2)}{'T' if o['spacer'] == chr(9) else 'S'}", f"{msg} with {o}", case))
        break
    return out


def special_tags(d):
    tags = set()

    def w(x, depth):
        if isinstance(x, dict):
            if "__type__" in x:
                depth += 1
                tags.add("depth%d" % min(depth, 4))
            for k, v in x.items():
                if k in reader.KV:
                    tags.add("kv")
                if k in ("projection", "points", "pattern", "config"):
                    tags.add(k)
                if k in dictevents.REPEATED:
                    tags.add("repeated")
                w(v, depth)
        elif isinstance(x, list):
            for v in x:
                w(v, depth)

    w(d, 0)
    return tags


def nontrivial(tags, o):
    return ("depth3" in tags or "depth4" in tags) and bool(tags & {"kv", "projection", "points", "pattern", "config", "repeated"}) \
        and options.n_diff(o) >= 1


def corpus_part(acc: Acc, tier, shard, nshards):
    items = list(corpus.load_all(shard, nshards, acc))
    k = TIERS[tier]["corpus_sets"]
    tagcache = {}

    def make_body(item):
      p, text, d = item

      def body(data):
        ch = model.Ch(data.draw)
        qs = options.usable_quotes(all_strings(d))
        if not qs:
            acc.excl("corpus:both_quotes_in_strings")
            return []
        o = options.draw(ch, quotes=qs, linebreak_only=True)
        if p not in tagcache:
            tagcache[p] = special_tags(d)
        acc.case([corpus.rel(p), optkey(o)], nontrivial(tagcache[p], o), sample={"file": corpus.rel(p), "options": o})
        acc.cls("corpus_cases")
        return run_case(d, o, {"file": corpus.rel(p), "options": o})

      return body

    hyp_each(acc, ID, "corpus", shard, items, k, make_body, tier, key=lambda it: corpus.rel(it[0]))


def search(acc: Acc, tier, shard, nshards):
    cfg = TIERS[tier]
    n = cfg["examples"] // nshards
    W = env.Workers.get()

    def body(data):
        ch = model.Ch(data.draw)
        quotes = ch.choice([['"'], ["'"], ['"', "'"]])
        prof = model.Profile(max_depth=4, max_items=6, forbid="".join(quotes), lookalike_multi=False)
        doc = model.any_document(model.Gen(ch, prof))
        if '"' in quotes and ch.chance(1, 5):
            return commented_case(ch, doc, acc)
        text = render.render(doc).text
        try:
            d = W.loads(text)
        except Exception as e:
            return [Discrepancy(f"load:{type(e).__name__}", f"generated document rejected: {e!s:.150}", {"text": text})]
        tags = special_tags(d)
        out = []
        seq_opts = []
        for _ in range(cfg["sets_per_doc"]):
            o = options.draw(ch, quotes=quotes, linebreak_only=True)
            seq_opts.append(o)
            acc.case([doc, optkey(o)], nontrivial(tags, o), sample={"text": text[:600], "options": o} if len(text) > 200 else None)
            acc.cls("opt:" + feat(o))
            acc.cls("opt:indent%d" % o["indent"])
            out += run_case(d, o, {"text": text, "options": o})
        for t in tags:
            acc.cls("doc:" + t)
        if not out and ch.chance(1, 3):
            # the module-level dumps called several times in one process with changing options: every output must
            # be the one a fresh PrettyPrinter gives for those options (the layout contract is checked on that one)
            seq = seq_opts[:]
            acc.cls("public_dumps_sequence")
            acc.case(["public_sequence", doc, [optkey(o) for o in seq]], len(seq) >= 2)
            out += public_sequence(d, seq, {"text": text, "options_sequence": seq})
        return out

    hyp_search(acc, ID, "documents", shard, n, body, tier)


def stray_line_breaks(text, nlc):
    """Offsets of line-break characters that are not part of a newlinechar, outside quoted strings and /* */ comments
    (multi-line values and comments keep the line breaks of their source)."""
    bad = []
    i, n = 0, len(text)
    while i < n:
        c = text[i]
        if c in "\"'":
            j = i + 1
            while j < n and text[j] != c:
                j += 2 if (text[j] == "\\" and j + 1 < n and text[j + 1] == c) else 1
            i = j + 1
            continue
        if c == "`":
            j = text.find("`", i + 1)
            i = n if j < 0 else j + 1
            continue
        if c == "{":
            j = text.find("}", i + 1)
            k = min([x for x in (text.find("\n", i + 1), text.find("\r", i + 1)) if x >= 0] or [n])
            if 0 <= j < k:
                i = j + 1
                continue
        if c == "/" and text.startswith("/*", i):
            j = text.find("*/", i + 2)
            i = n if j < 0 else j + 2
            continue
        if c == "#":
            j = i
            while j < n and text[j] not in "\r\n":
                j += 1
            i = j
            continue
        if c in "\r\n":
            if text.startswith(nlc, i) and nlc in ("\n", "\r\n"):
                i += len(nlc)
                continue
            bad.append(i)
        i += 1
    return bad


def commented_case(ch, doc, acc):
    """a document loaded with its comments: every line break dumps writes is newlinechar"""
    from . import c14

    W = env.Workers.get()
    src, placed = c14.render_with_comments(doc, ch)
    o = options.draw(ch, quotes=['"'], linebreak_only=True, has_comments=True)
    case = {"commented_text": src, "options": o}
    acc.case(["commented", src, optkey(o)], len(placed) >= 2 and o["newlinechar"] != "\n")
    acc.cls("commented_documents")
    return commented_check(src, o, case)


def commented_check(src, o, case):
    W = env.Workers.get()
    try:
        text = W.dumps(W.loads(src, comments=True), **o)
    except Exception as e:
        return [Discrepancy(f"dumps_comments:{type(e).__name__}", f"dumps of a dictionary with comments raised {type(e).__name__}: {e!s:.100}", case)]
    bad = stray_line_breaks(text, o["newlinechar"])
    if bad:
        k = bad[0]
        return [Discrepancy(f"linebreak_not_newlinechar:comments:{feat(o)}", f"a line break that is not newlinechar {o['newlinechar']!r} at offset {k}: {text[max(0, k - 40):k + 20]!r} with {o}", case)]
    return []


def public_sequence(d, seq, case):
    import mappyfile

    W = env.Workers.get()
    for i, o in enumerate(seq):
        try:
            pub = mappyfile.dumps(copy.deepcopy(d), **o)
        except Exception as e:
            return [Discrepancy(f"public_dumps:{type(e).__name__}", f"mappyfile.dumps raised {type(e).__name__}: {e!s:.100} with {o}", case)]
        ref = W.PrettyPrinter(**o).pprint(copy.deepcopy(d))
        if pub != ref:
            k = next((j for j, (a, b) in enumerate(zip(pub, ref)) if a != b), min(len(pub), len(ref)))
            return [Discrepancy(f"public_sequence:{feat(o)}", f"call {i + 1} of a sequence of mappyfile.dumps calls ({[feat(x) for x in seq[:i + 1]]}) wrote {pub[max(0, k - 30):k + 30]!r} "
                                f"where a fresh PrettyPrinter with the same options writes {ref[max(0, k - 30):k + 30]!r}", case)]
    return []


def replay(case):
    W = env.Workers.get()
    if "commented_text" in case:
        return commented_check(case["commented_text"], case["options"], case)
    text = corpus.read(os.path.join(env.REPO, case["file"])) if "file" in case else case["text"]
    if "options_sequence" in case:
        return public_sequence(W.loads(text), case["options_sequence"], case)
    return run_case(W.loads(text), case["options"], case)
