"""C13 - position and comment bookkeeping is transparent."""
from __future__ import annotations

import io
import copy
import os
import tempfile

from .. import corpus, env, model, reader, refdict, render
from ..harness import Acc, Discrepancy, hyp_each, hyp_search

ID = "C13"
RULE = ("Every parseable corpus file and Hypothesis-drawn documents rendered under a surface with drawn # and C comments, loaded "
        "under the four combinations of include_position x include_comments through loads, load (StringIO and a real file object) "
        "and open (temporary file): after recursively removing __position__ and __comments__ the result must equal the plain "
        "load exactly (keys, order, types, values); dumps of the position-only dictionary must be byte-identical to dumps of the "
        "plain one; dumps of a dictionary loaded with comments, once the independent reader drops comment tokens, must give the "
        "same event stream as the plain one. Non-trivial: >= 1 comment and >= 1 of {PROJECTION, key-value block, repeated keyword, "
        "CONFIG, POINTS, nested block}. Distinct = (text, flags, entry point).")
ASSUMPTIONS = [
    "texts loaded through open / load are written as UTF-8 with newline='' and contain no lone CR (see C20 for the newline finding)",
    "documents with INCLUDE keywords are loaded with expand_includes=False",
]
TIERS = {
    "quick": {"examples": 4000, "budget_s": 110},
    "thorough": {"examples": 100000, "budget_s": 1800},
}
PARTS = ["corpus_part", "search"]

_tmp = {"dir": None}


def tmpdir():
    if _tmp["dir"] is None:
        _tmp["dir"] = tempfile.mkdtemp(prefix="mfv_c13_")
    return _tmp["dir"]


def strip_lines(ev):
    return [e[:-1] if e[0] != "comment" else e for e in ev if e[0] != "comment"]


def load_via(entry, text, position, comments):
    import mappyfile

    W = env.Workers.get()
    if entry == "workers":
        return W.loads(text, position=position, comments=comments)
    kw = dict(expand_includes=False, include_position=position, include_comments=comments)
    if entry == "loads":
        return mappyfile.loads(text, **kw)
    if entry == "load_stringio":
        return mappyfile.load(io.StringIO(text), **kw)
    p = os.path.join(tmpdir(), "c13_%d.map" % os.getpid())
    with open(p, "w", encoding="utf-8", newline="") as f:
        f.write(text)
    try:
        if entry == "open":
            return mappyfile.open(p, **kw)
        with open(p, encoding="utf-8", newline="") as f:
            return mappyfile.load(f, **kw)
    finally:
        os.unlink(p)


def check(text, case, entries=("workers",), plain=None, opts=None):
    W = env.Workers.get()
    out = []
    try:
        if plain is None:
            plain = W.loads(text)
    except Exception as e:
        return [Discrepancy(f"plain_load:{type(e).__name__}", f"plain load failed: {e!s:.100}", case)]
    opts = dict(opts or {})
    nlc = opts.get("newlinechar", "\n")
    # (separate_complex_types is documented to reorder the dictionary it is given: print copies)
    t_plain = W.dumps(copy.deepcopy(plain), **opts)
    ev_plain = None
    for position in (False, True):
        for comments in (False, True):
            for entry in entries:
                if entry == "workers" and not position and not comments:
                    continue
                if entry != "workers" and not comments:
                    continue  # the public entry points build a parser per call (~0.3 s): two flag sets suffice there
                flags = f"pos={int(position)},com={int(comments)}"
                try:
                    d = load_via(entry, text, position, comments)
                except Exception as e:
                    out.append(Discrepancy(f"load:{flags}:{type(e).__name__}", f"{entry} with {flags} raised {type(e).__name__}: {e!s:.100} although the plain load works", dict(case, flags=flags, entry=entry)))
                    continue
                diffs = refdict.equal_dicts(plain, refdict.strip_hidden(d))
                if diffs:
                    loc, msg = diffs[0]
                    key = loc.split("/")[-1].split("[")[0]
                    out.append(Discrepancy(f"content:{flags}:{key}:{msg[:16]}", f"{entry} with {flags}: at {loc}: {msg}", dict(case, flags=flags, entry=entry)))
                    continue
                if entry != entries[0]:
                    continue
                try:
                    t = W.dumps(copy.deepcopy(d), **opts)
                except Exception as e:
                    out.append(Discrepancy(f"dumps:{flags}:{type(e).__name__}", f"dumps of the {flags} dictionary raised {type(e).__name__}: {e!s:.100}", dict(case, flags=flags)))
                    continue
                if not comments:
                    if t != t_plain:
                        out.append(Discrepancy(f"print:{flags}", f"dumps of the {flags} dictionary differs from the plain one (position data printed?)", dict(case, flags=flags)))
                else:
                    try:
                        if ev_plain is None:
                            ev_plain = strip_lines(reader.events(t_plain)[0])
                        ev = strip_lines(reader.events(t)[0])
                    except reader.ReaderError as e:
                        out.append(Discrepancy(f"print_unreadable:{flags}", f"output with comments cannot be read: {e}", dict(case, flags=flags)))
                        continue
                    if ev == ev_plain and bare_lines(t, nlc) != bare_lines(t_plain, nlc):
                        a, b = bare_lines(t, nlc), bare_lines(t_plain, nlc)
                        k = next((i for i, (x, y) in enumerate(zip(a, b)) if x != y), min(len(a), len(b)))
                        out.append(Discrepancy(f"print_layout:{flags}", f"with the comment text removed the {flags} dictionary is laid out differently from the plain one: "
                                               f"{a[k:k + 1]} vs {b[k:k + 1]} (options {opts})", dict(case, flags=flags, opts=opts)))
                    if ev != ev_plain:
                        k = next((i for i, (a, b) in enumerate(zip(ev, ev_plain)) if a != b), min(len(ev), len(ev_plain)))
                        out.append(Discrepancy(f"print:{flags}:{(ev_plain[k:k + 1] or [('?',)])[0][0]}", f"apart from comments the {flags} dictionary prints differently: {ev[k:k + 2]} vs {ev_plain[k:k + 2]}", dict(case, flags=flags)))
    return out[:2]


def bare_lines(t, nlc):
    """The printed text with every comment blanked out, as lines without trailing white space and without the
    lines that held nothing but a comment ("apart from comment text, exactly what the plain dictionary prints")."""
    from .. import scanner

    chars = list(t)
    for c in scanner.scan(t):
        raw = c.raw.rstrip("\r") if c.raw.startswith("#") else c.raw   # (the CR of a CRLF line end is not comment text)
        for i in range(c.off, c.off + len(raw)):
            chars[i] = " "   # (line breaks inside a /* */ comment are comment text too)
    lines = [l.rstrip(" \t") for l in "".join(chars).split(nlc)]
    return [l for l in lines if l.strip()]


def corpus_part(acc: Acc, tier, shard, nshards):
    for p, text, d in corpus.load_all(shard, nshards, acc):
        if "\r" in text.replace("\r\n", ""):
            acc.excl("corpus:lone_CR")
            continue
        case = {"file": corpus.rel(p)}
        has_comment = "#" in text or "/*" in text
        acc.case(case, has_comment, sample=case, n=3)
        acc.cls("corpus_files")
        entries = ("workers", "open") if tier == "quick" else ("workers", "loads", "open", "load_file", "load_stringio")
        for dd in check(text, case, entries, plain=d):
            if not any(v["bucket"] == dd.bucket for v in acc.violations):
                acc.violations.append({**dd.as_dict(), "search": "corpus", "shard": shard, "round": 0, "seed": env.verif_seed(), "tier": tier})


def specials(doc):
    s = set()
    for root in doc:
        for path, o in model.walk(root):
            if path:
                s.add("nested")
            for it in o["items"]:
                if it[0] in ("proj", "kv", "rep", "config"):
                    s.add(it[0])
                if it[0] == "pairs":
                    s.add("points")
    return s


def search(acc: Acc, tier, shard, nshards):
    n = TIERS[tier]["examples"] // nshards
    prof = model.Profile(max_depth=4, max_items=7, forbid='"', lookalike_multi=False)  # dumps: default quote; DESIGN 5 rule 3
    counter = {"i": 0}

    def body(data):
        ch = model.Ch(data.draw)
        counter["i"] += 1
        doc = model.any_document(model.Gen(ch, prof))
        st_ = {}
        text = render.render(doc, render.Surface(ch, stats=st_, crlf=True)).text
        has_comment = bool(st_.get("sep:hash_comment") or st_.get("sep:c_comment"))
        sp = specials(doc)
        acc.case([doc, text], has_comment and bool(sp), sample={"text": text[:600]} if 100 < len(text) < 600 else None, n=3)
        for x in sp:
            acc.cls("special:" + x)
        acc.cls("with_comments" if has_comment else "without_comments")
        m = ch.int(0, 39)
        entries = ("workers",) if m > 4 else ("workers", ["loads", "open", "load_file", "load_stringio", "loads"][m])
        for e in entries:
            acc.cls("entry:" + e)
        opts = None
        if ch.chance(1, 2):
            from .. import options

            opts = options.draw(ch, quotes=['"'], linebreak_only=True, has_comments=True)
            acc.cls("with_layout_options")
        return check(text, {"text": text, "opts": opts}, entries, opts=opts)

    hyp_search(acc, ID, "documents", shard, n, body, tier)


def replay(case):
    text = corpus.read(os.path.join(env.REPO, case["file"])) if "file" in case else case["text"]
    return check(text, case, ("workers", "loads", "open", "load_file", "load_stringio"), opts=case.get("opts"))
