"""C01 - parse -> pretty-print -> parse preserves Mapfile content.

G: corpus files + generated documents under a random surface, output quote drawn.
O: d1=loads(t); t2=dumps(d1, quote=q) must not raise; d2=loads(t2) must not raise;
   structural walk d1 vs d2 with exactly the two licences of the statement, each
   decided from the schema slot of the leaf (vocab), not from the printer."""
from __future__ import annotations

import re

from .. import corpus, env, model, refdict, render, vocab
from ..harness import Acc, Discrepancy, hyp_search

ID = "C01"
RULE = ("(a) every parseable corpus file, (b) Hypothesis-drawn document models rendered under a drawn surface; "
        "d1=loads(t), t2=dumps(d1, quote=q), d2=loads(t2); d1 and d2 are walked structurally (objects, keys, key order, "
        "nesting, list lengths, leaf type and value) allowing only: letter case of a word at a slot with an enum alternative "
        "containing it; number -> equal numeric string at a string-typed slot. Non-trivial: >= 3 keywords and >= 1 value "
        "outside {int, enum word}. Distinct = fingerprint of model / file path + quote.")
ASSUMPTIONS = [
    "excluded by documentation: strings containing the output quote; expression look-alike strings at multi-alternative keywords",
    "corpus file skipped (and counted) when both quote characters occur inside its string values",
]
TIERS = {
    "quick": {"examples": 16000, "budget_s": 100},
    "thorough": {"examples": 150000, "budget_s": 1500},
}
PARTS = ["corpus_part", "search"]


def _slot(type_, key):
    try:
        return vocab.slots(type_).get(key)
    except Exception:
        return None


def licence_walk(a, b, type_=None, key=None, path="", out=None):
    """Walk d1 / d2; leaves are judged with the schema slot (type_, key) they belong to."""
    out = [] if out is None else out
    if isinstance(a, dict) and isinstance(b, dict):
        t = a.get("__type__")
        ka = [k for k in a.keys() if k not in refdict.HIDDEN]
        kb = [k for k in b.keys() if k not in refdict.HIDDEN]
        if ka != kb:
            out.append((path, f"key sequence differs: {ka} vs {kb}"))
        for k in ka:
            if k in b:
                # key-value blocks and CONFIG hold plain strings: no slot, no licence
                licence_walk(a[k], b[k], t if t in vocab.all_types() else None, k, path + "/" + k, out)
        return out
    if isinstance(a, (list, tuple)) and isinstance(b, (list, tuple)):
        if len(a) != len(b):
            out.append((path, f"list length differs: {len(a)} vs {len(b)}"))
        for i, (x, y) in enumerate(zip(a, b)):
            licence_walk(x, y, type_, key, f"{path}[{i}]", out)
        return out
    _leaf(a, b, type_, key, path, out)
    return out


def _leaf(x, y, type_, key, path, out):
    if type(x) is type(y) and x == y:
        return
    slot = _slot(type_, key) if type_ and key else None
    if slot is not None:
        if isinstance(x, str) and isinstance(y, str) and x.lower() == y.lower():
            for a in slot.alts:
                if a.shape == "enum" and x.lower() in [str(e).lower() for e in a.arg]:
                    return  # licence (i)
        if isinstance(x, (int, float)) and not isinstance(x, bool) and isinstance(y, str) and str(x) == y:
            if any(a.shape in ("string", "strpat") for a in slot.alts):
                return  # licence (ii)
    out.append((path, f"differs: {type(x).__name__} {x!r:.70} vs {type(y).__name__} {y!r:.70}"))


def all_strings(d, out=None):
    out = [] if out is None else out
    if isinstance(d, dict):
        for k, v in d.items():
            if k in refdict.HIDDEN:
                continue
            all_strings(v, out)
            if isinstance(k, str):
                out.append(k)
    elif isinstance(d, (list, tuple)):
        for v in d:
            all_strings(v, out)
    elif isinstance(d, str):
        out.append(d)
    return out


def bucket_of(stage, loc, msg):
    key = re.sub(r"\[\d+\]", "", loc).split("/")[-1] if loc else ""
    return f"{stage}:{key}:{re.sub(r'[0-9]+', 'N', msg)[:30]}"


def roundtrip(text, quote, case, public=False, d1=None, opts=None, comments=False):
    W = env.Workers.get()
    out = []
    if d1 is None:
        try:
            d1 = W.loads(text, comments=comments)
        except Exception as e:
            return [Discrepancy(f"load1:{type(e).__name__}", f"first loads raised {type(e).__name__}: {str(e)[:200]}", case)]
    try:
        if public:
            import mappyfile

            t2 = mappyfile.dumps(d1, **dict(opts or {}, quote=quote))
        else:
            t2 = W.dumps(d1, **dict(opts or {}, quote=quote))
    except Exception as e:
        return [Discrepancy(f"dumps:{type(e).__name__}:{str(e)[:30]}", f"dumps raised {type(e).__name__}: {str(e)[:200]}", case)]
    try:
        d2 = W.loads(t2)
    except Exception as e:
        tok = getattr(getattr(e, "token", None), "type", "")
        ctx = ""
        if getattr(e, "line", None):
            lines = t2.split("\n")
            ctx = lines[e.line - 1][:120] if 0 < e.line <= len(lines) else ""
        kw = ctx.strip().split(" ")[0] if ctx else ""
        return [Discrepancy(f"reload:{type(e).__name__}:{tok}:{kw}",
                            f"written text is rejected by loads ({type(e).__name__}) near: {ctx!r}", case)]
    if comments:
        d1 = refdict.strip_hidden(d1)   # (the comments themselves are C14's business: the content must survive)
    for loc, msg in licence_walk(d1, d2):
        out.append(Discrepancy(bucket_of("content", loc, msg), f"after dumps/loads, at {loc}: {msg}", case))
        break
    return out


def profile(quote):
    return model.Profile(max_depth=4, max_items=7, forbid=quote, lookalike_multi=False)


def corpus_part(acc: Acc, tier, shard, nshards):
    for p, text, d in corpus.load_all(shard, nshards, acc):
        strs = all_strings(d)
        for quote in ('"', "'"):
            if any(quote in s for s in strs):
                acc.excl("corpus:output_quote_inside_string")
                continue
            case = {"file": corpus.rel(p), "quote": quote}
            acc.case(case, True, sample=case)
            acc.cls("corpus_files")
            for dd in roundtrip(text, quote, case, d1=d):
                acc.violations.append({**dd.as_dict(), "search": "corpus", "shard": shard, "round": 0,
                                       "seed": env.verif_seed(), "tier": tier})
            if tier == "quick":
                break


def search(acc: Acc, tier, shard, nshards):
    n = TIERS[tier]["examples"] // nshards
    profs = {q: profile(q) for q in ('"', "'")}
    counter = {"i": 0}

    def body(data):
        ch = model.Ch(data.draw)
        quote = ch.choice(['"', "'"])
        st_ = {}
        doc = model.any_document(model.Gen(ch, profs[quote], st_))
        text = render.render(doc, render.Surface(ch, stats=st_, numbers=True)).text
        counter["i"] += 1
        s = model.stats_of(doc)
        nontrivial = s["keywords"] >= 3 and any(c not in ("int", "enum") for c in s["classes"])
        acc.case(doc, nontrivial, sample={"text": text[:1200], "quote": quote} if len(text) > 100 else None)
        acc.cls("quote:" + quote)
        for c in s["classes"]:
            acc.cls("shape:" + c)
        for k, v in st_.items():
            if k.startswith("excluded:"):
                acc.excl(k[9:], v)
        # "written with dumps": under the layout options too (the key order is part of C01, so the one option that
        # reorders keys by design, separate_complex_types, stays off; C06 owns the comparison between option sets)
        opts = None
        if ch.chance(1, 3):
            from .. import options

            opts = options.draw(ch, quotes=[quote], separate=False)
            acc.cls("with_layout_options")
        comments = ch.chance(1, 5)
        if comments:
            # the dictionary loaded with its comments is written back too (any newlinechar with a line break)
            from .. import options

            opts = options.draw(ch, quotes=[quote], separate=False, linebreak_only=True, has_comments=True)
            acc.cls("loaded_with_comments")
        return roundtrip(text, quote, {"doc": doc, "text": text, "quote": quote, "opts": opts, "comments": comments}, public=ch.chance(1, 50) and not comments,
                         opts=opts, comments=comments)

    hyp_search(acc, ID, "documents", shard, n, body, tier)


def replay(case):
    if "file" in case:
        import os

        text = corpus.read(os.path.join(env.REPO, case["file"]))
    else:
        text = case["text"]
    return roundtrip(text, case.get("quote", '"'), case, opts=case.get("opts"), comments=case.get("comments", False))
