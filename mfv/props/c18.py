"""C18 - update / find helpers obey their documented laws.

Reference implementations are written from the statement of C18 and the docstrings."""
from __future__ import annotations

import copy
from collections import OrderedDict

from hypothesis import strategies as st

from .. import env, model, refdict
from ..harness import Acc, Discrepancy, hyp_search

ID = "C18"
RULE = ("update: Hypothesis draws a nested dictionary (plain dicts or Mapfile dicts, object lists, scalars, scalar lists) and a "
        "patch derived from it (replace scalar / non-object list, new key, nested merge, object-list merge with None "
        "place-holders and extra items, '__delete__' values on existing keys, {'__delete__': True} objects and list items), both "
        "overwrite modes; result, identity with d1, final state of d1 and immutability of d2 are compared with a reference "
        "implementation. find*: lists of objects with/without the key, falsy values, sub/superstrings of the searched value, "
        "single value and list of values, auto-creating and plain dicts; returned items compared by identity and order, the "
        "searched list must be unchanged. Non-trivial: patch with >= 1 deletion / None place-holder / appended item; search "
        "list with >= 1 item lacking the key or a near-miss value. Distinct = fingerprint of the case.")
ASSUMPTIONS = [
    "patches are type-compatible with their target; deletions name existing keys; no empty list as a patch value; no root-level __delete__",
    "findunique values are strings (sorted() of mixed types is outside the statement)",
]
TIERS = {
    "quick": {"update": 14000, "find": 14000, "budget_s": 100},
    "thorough": {"update": 300000, "find": 300000, "budget_s": 1500},
}
PARTS = ["search"]

KEYS = ["name", "type", "status", "group", "data", "opacity", "size", "extent", "x"]
OBJKEYS = ["layers", "classes", "styles", "labels"]
SUBKEYS = ["metadata", "web", "legend", "scalebar"]
SCALARS = ["a", "b", "test", "", 0, 1, 5, 2.5, True, False, "ON", "x y"]


def CIOD():
    from mappyfile.ordereddict import CaseInsensitiveOrderedDict

    return CaseInsensitiveOrderedDict


def mk(kind):
    C = CIOD()
    return C(C) if kind == "mapfile" else (OrderedDict() if kind == "ordered" else {})


def gen_dict(ch, kind, depth=0):
    d = mk(kind)
    for _ in range(ch.int(0, 4)):
        d[ch.choice(KEYS)] = gen_scalar_or_list(ch)
    if depth < 2:
        for _ in range(ch.int(0, 2)):
            d[ch.choice(SUBKEYS)] = gen_dict(ch, kind, depth + 1)
        for _ in range(ch.int(0, 2)):
            d[ch.choice(OBJKEYS)] = [gen_dict(ch, kind, depth + 1) for _ in range(ch.int(1, 3))]
    return d


def gen_scalar_or_list(ch):
    if ch.chance(1, 5):
        return [ch.choice([0, 1, 255, 2.5, "p"]) for _ in range(ch.int(1, 4))]
    return ch.choice(SCALARS)


def gen_patch(ch, d, tags, depth=0, fold=False):
    """A patch that is type-compatible with d. fold: d is a Mapfile dict, whose keys are case-insensitive - the patch (a
    plain dict) may then spell an existing key in any letter case."""
    p = {}
    keys = list(d.keys())

    def sp(k):
        # (one entry per key: a second spelling of a key already in the patch would speak of the same key twice)
        for other in [x for x in p if isinstance(x, str) and isinstance(k, str) and x.lower() == k.lower()]:
            del p[other]
        if fold and isinstance(k, str) and not k.startswith("__") and ch.chance(1, 3):
            tags.add("patch_key_other_case")
            return ch.choice([k.upper(), k.capitalize()])
        return k

    for _ in range(ch.int(1, 4)):
        m = ch.int(0, 9)
        if m <= 2 or not keys:
            k = ch.choice(KEYS + ["newkey", "n2"])
            if k in d and isinstance(d[k], (dict,)) or (k in d and _is_objlist(d[k])):
                continue
            p[sp(k) if k in d else (sp(k) and k)] = gen_scalar_or_list(ch)
            tags.add("new_key" if k not in d else "replace")
            continue
        k = ch.choice(keys)
        v = d[k]
        if isinstance(v, dict):
            if m == 3:
                p[sp(k)] = {"__delete__": True}
                tags.add("delete_object")
            elif depth < 3:
                p[sp(k)] = gen_patch(ch, v, tags, depth + 1, fold)
                tags.add("nested_merge")
        elif _is_objlist(v):
            items = []
            n = len(v) + ch.int(0, 2)
            for i in range(n):
                mm = ch.int(0, 5)
                if i < len(v):
                    if mm == 0:
                        items.append(None)
                        tags.add("none_placeholder")
                    elif mm == 1:
                        items.append({"__delete__": True})
                        tags.add("delete_list_item")
                    elif depth < 3:
                        items.append(gen_patch(ch, v[i], tags, depth + 1, fold))
                    else:
                        items.append(None)
                else:
                    items.append({ch.choice(KEYS): ch.choice(SCALARS)})
                    tags.add("appended_item")
            if items:
                p[sp(k)] = items
                tags.add("list_merge")
        else:
            if m == 4:
                p[sp(k)] = "__delete__"
                tags.add("delete_key")
            else:
                p[sp(k)] = gen_scalar_or_list(ch)
                tags.add("replace")
    # a new nested dict / new object list under an absent key
    if ch.chance(1, 6):
        k = ch.choice(["newsub", "projection2"])
        if k not in d:
            p[k] = {ch.choice(KEYS): ch.choice(SCALARS)}
            if ch.bool():
                # a new object that brings a list of objects with a None place-holder of its own: merged like any other
                p[k][ch.choice(OBJKEYS)] = [None, {ch.choice(KEYS): ch.choice(SCALARS)}] if ch.bool() else [{ch.choice(KEYS): ch.choice(SCALARS)}]
                tags.add("new_nested_dict_with_list")
            tags.add("new_nested_dict")
    if ch.chance(1, 8):
        k = ch.choice(["features", "joins"])
        if k not in d:
            p[k] = [{ch.choice(KEYS): ch.choice(SCALARS)}]
            tags.add("new_object_list")
    return p


def _is_objlist(v):
    return isinstance(v, (list, tuple)) and len(v) > 0 and all(isinstance(x, (dict, type(None))) for x in v)


# ------------------------------------------------------------------ reference update

def ref_update(d1, d2, overwrite=True, fold=False):
    """Written from the statement: returns the expected final content of d1 (a fresh structure).
    fold: d1 is a Mapfile dict - d2 speaks of a key whatever letter case it spells it in."""
    out = OrderedDict((k, copy.deepcopy(v)) for k, v in d1.items())
    for k, v in d2.items():
        if fold and isinstance(k, str):
            k = k.lower()
        if isinstance(v, dict):
            if v.get("__delete__", False):
                out.pop(k)
            else:
                out[k] = ref_update(out.get(k, {}), v, overwrite, fold and k in out)
        elif _is_objlist(v):
            orig = list(out.get(k, []))
            new = []
            for i in range(max(len(orig), len(v))):
                o = orig[i] if i < len(orig) else None
                n = v[i] if i < len(v) else None
                if n is not None and n.get("__delete__", False):
                    continue
                if n is None:
                    new.append(o if o is not None else OrderedDict())
                else:
                    new.append(ref_update(o if o is not None else {}, n, overwrite, fold and o is not None))
            out[k] = new
        else:
            if k in out and v == "__delete__":
                del out[k]
            elif overwrite or k not in out:
                out[k] = copy.deepcopy(v)
    return out


def plain(x):
    """content with key order, ignoring dict classes"""
    if isinstance(x, dict):
        return ("D", [(k, plain(v)) for k, v in x.items()])
    if isinstance(x, (list, tuple)):
        return ("L", [plain(v) for v in x])
    return (type(x).__name__, x)


def check_update(d1, patch, overwrite, case):
    import mappyfile

    exp = ref_update(d1, patch, overwrite, fold=case.get("kind") == "mapfile")
    snap2 = refdict.snapshot(patch)
    try:
        res = mappyfile.update(d1, patch, overwrite=overwrite)
    except Exception as e:
        return [Discrepancy(f"update:raised:{type(e).__name__}", f"update raised {type(e).__name__}: {e!s:.100}", case)]
    out = []
    if res is not d1:
        out.append(Discrepancy("update:identity", "update did not return d1 itself", case))
    if plain(res) != plain(exp):
        diffs = refdict.equal_dicts(_od(exp), _od(res))
        loc, msg = diffs[0] if diffs else ("", "content differs")
        key = loc.split("/")[-1].split("[")[0]
        out.append(Discrepancy(f"update:content:{'ow' if overwrite else 'noow'}:{msg[:20]}", f"at {loc}: expected vs got: {msg} (overwrite={overwrite})", case))
    if refdict.snapshot(patch) != snap2:
        out.append(Discrepancy("update:patch_modified", "update modified its second argument", case))
    if not out:
        # d1 and the patch stay separate objects: changing what update built in d1 leaves the patch as it was
        _scribble(res)
        if refdict.snapshot(patch) != snap2:
            out.append(Discrepancy("update:patch_aliased", "after update, changing an object of d1 changes the patch: d1 holds objects (dicts) of d2 by reference", case))
    return out


def _scribble(x):
    """mark every dict (object) reachable in x; plain value lists are left alone - that d1 may hold d2's scalar lists
    by reference is not something the statement speaks about, merged objects are"""
    if isinstance(x, dict):
        for v in list(x.values()):
            _scribble(v)
        x["mfv_scribble"] = 1
    elif isinstance(x, list):
        for v in x:
            _scribble(v)


def _od(x):
    if isinstance(x, dict):
        return OrderedDict((k, _od(v)) for k, v in x.items())
    if isinstance(x, (list, tuple)):
        return [_od(v) for v in x]
    return x


# ------------------------------------------------------------------ find

def gen_find_case(ch):
    kind = ch.choice(["mapfile", "mapfile", "plain"])
    key = ch.choice(["group", "name", "type", "status"])
    target = ch.choice(["test", "roads", "a", 0, 1, "", "POINT", False, 5])
    numeric = ch.chance(1, 6)   # a numeric keyword (SIZE): ints and floats side by side
    if numeric:
        key, target = "size", ch.choice([8, 10.5, 12, 2.0])
    near = []
    if ch.chance(1, 5):
        # list-valued keywords (EXTENT, COLOR, PROCESSING): find compares the whole value for equality,
        # findall takes a list for the values asked for
        key = ch.choice(["extent", "color", "processing"])
        target = ch.choice([[0, 0, 50, 50], [255, 0, 0], ["a", "b"], [1], []])
    if isinstance(target, list):
        near = [target + [1], target[:-1], list(reversed(target)) + [0], None, ""] + list(target)
    elif isinstance(target, str):
        near = [target + "1", target[:-1], "x" + target, target.upper(), target + " ", ""]
    elif numeric:
        near = [target + 1, target + 0.5, -target, target * 10]
    else:
        near = [target + 1, str(target), None, 0, False, ""]
    lst = []
    tags = set()
    for i in range(ch.int(0, 7)):
        d = mk(kind)
        d["__type__"] = "layer"
        d["id"] = i
        m = ch.int(0, 5)
        if m == 0:
            tags.add("item_lacks_key")
        elif m in (1, 2):
            d[key] = list(target) if isinstance(target, list) else target
            tags.add("match")
        elif m == 3:
            d[key] = ch.choice(near)
            tags.add("near_miss")
        elif numeric:
            d[key] = ch.choice([8, 10.5, 12, 2.0, 7, 9.25, 100, 0.5])
        else:
            d[key] = ch.choice(SCALARS)
        if ch.bool():
            d["other"] = ch.choice(SCALARS)
        lst.append(d)
    if isinstance(target, list):
        tags.add("list_valued_key")
    if ch.chance(1, 3):
        values = [target] + [ch.choice(SCALARS) for _ in range(ch.int(0, 2))]
        tags.add("list_of_values")
    else:
        values = None
    keyspelling = ch.choice([key, key.upper(), key.capitalize()])
    return {"kind": kind, "key": keyspelling, "target": target, "values": values, "items": [[(k, v) for k, v in d.items()] for d in lst]}, tags


def build_items(case):
    out = []
    for pairs in case["items"]:
        d = mk(case["kind"])
        for k, v in pairs:
            d[k] = v
        out.append(d)
    return out


def check_find(case):
    import mappyfile

    out = []
    key = case["key"]
    lk = key.lower()
    target = case["target"]
    values = case["values"]
    lst = build_items(case)
    snap = refdict.snapshot(lst)

    def unchanged(fn):
        if refdict.snapshot(lst) != snap:
            out.append(Discrepancy(f"{fn}:items_modified", f"{fn} changed the searched items: {case['items']!r:.200} -> {[list(d.items()) for d in lst]!r:.200}", case))
            return False
        return True

    # find
    exp = next((d for d in lst if lk in dict.keys(d) and dict.__getitem__(d, lk) == target), None)
    try:
        got = mappyfile.find(lst, key, target)
        if got is not exp:
            out.append(Discrepancy("find:result", f"find returned {got!r:.80}, expected {exp!r:.80}", case))
    except Exception as e:
        out.append(Discrepancy(f"find:raised:{type(e).__name__}", f"find raised {type(e).__name__}: {e!s:.80}", case))
    unchanged("find")
    # findall
    want = values if values is not None else (target if isinstance(target, (list, tuple, set)) else [target])
    expl = [d for d in lst if lk in dict.keys(d) and any(dict.__getitem__(d, lk) == w for w in want)]
    try:
        gotl = mappyfile.findall(lst, key, values if values is not None else target)
        if len(gotl) != len(expl) or any(a is not b for a, b in zip(gotl, expl)):
            out.append(Discrepancy("findall:result", f"findall returned ids {[d.get('id') for d in gotl]}, expected {[dict.get(d, 'id') for d in expl]} "
                                   f"for {key}={values if values is not None else target!r}", case))
    except Exception as e:
        out.append(Discrepancy(f"findall:raised:{type(e).__name__}", f"findall raised {type(e).__name__}: {e!s:.80}", case))
    unchanged("findall")
    # findunique (string values only)
    present = [dict.__getitem__(d, lk) for d in lst if lk in dict.keys(d)]
    def _num(v):
        return isinstance(v, (int, float)) and not isinstance(v, bool)

    # (values that sort: all strings, or all numbers - ints and floats mix, as SIZE 8 / SIZE 10.5 do)
    if all(isinstance(v, str) for v in present) or all(_num(v) for v in present):
        try:
            gotu = mappyfile.findunique(lst, key)
            if gotu != sorted(set(present)):
                out.append(Discrepancy("findunique:result", f"findunique returned {gotu!r}, expected {sorted(set(present))!r}", case))
        except Exception as e:
            out.append(Discrepancy(f"findunique:raised:{type(e).__name__}", f"findunique raised {type(e).__name__}: {e!s:.80}", case))
        unchanged("findunique")
    return out


def check_findkey(ch, acc):
    import mappyfile

    d = gen_dict(ch, ch.choice(["mapfile", "plain"]))
    # draw a path through d
    path = []
    cur = d
    for _ in range(ch.int(0, 4)):
        if isinstance(cur, dict) and len(cur):
            k = ch.choice(list(cur.keys()))
            path.append(k)
            cur = cur[k]
        elif isinstance(cur, list) and len(cur):
            i = ch.int(0, len(cur) - 1)
            path.append(i)
            cur = cur[i]
        else:
            break
    snap = refdict.snapshot(d)
    case = {"findkey_path": path, "dict": plain(d)}
    out = []
    try:
        got = mappyfile.findkey(d, *path)
        if got is not cur:
            out.append(Discrepancy("findkey:result", f"findkey({path}) returned {got!r:.80}, expected {cur!r:.80}", case))
    except Exception as e:
        out.append(Discrepancy(f"findkey:raised:{type(e).__name__}", f"findkey raised {type(e).__name__}", case))
    if refdict.snapshot(d) != snap:
        out.append(Discrepancy("findkey:modified", "findkey modified the dictionary", case))
    acc.cls("findkey:pathlen%d" % len(path))
    return out


def search(acc: Acc, tier, shard, nshards):
    cfg = TIERS[tier]

    def body_update(data):
        ch = model.Ch(data.draw)
        kind = ch.choice(["mapfile", "mapfile", "plain", "ordered"])
        d1 = gen_dict(ch, kind)
        tags = set()
        patch = gen_patch(ch, d1, tags, fold=(kind == "mapfile"))
        overwrite = ch.bool()
        case = {"kind": kind, "d1": plain(d1), "patch": patch, "overwrite": overwrite}
        nt = bool(tags & {"delete_key", "delete_object", "delete_list_item", "none_placeholder", "appended_item"})
        acc.case(case, nt, sample={"d1": repr(plain(d1))[:400], "patch": repr(patch)[:400], "overwrite": overwrite})
        for t in tags:
            acc.cls("update:" + t)
        acc.cls("update:kind:" + kind)
        acc.cls("update:overwrite" if overwrite else "update:no_overwrite")
        return check_update(d1, patch, overwrite, case)

    def body_find(data):
        ch = model.Ch(data.draw)
        case, tags = gen_find_case(ch)
        acc.case(case, bool(tags & {"item_lacks_key", "near_miss"}), sample=case)
        for t in tags:
            acc.cls("find:" + t)
        acc.cls("find:kind:" + case["kind"])
        out = check_find(case)
        if ch.chance(1, 4):
            out += check_findkey(ch, acc)
        return out

    hyp_search(acc, ID, "update", shard, cfg["update"] // nshards, body_update, tier)
    hyp_search(acc, ID, "find", shard, cfg["find"] // nshards, body_find, tier)


def unplain(p, kind):
    tag = p[0]
    if tag == "D":
        d = mk(kind)
        for k, v in p[1]:
            d[k] = unplain(v, kind)
        return d
    if tag == "L":
        return [unplain(v, kind) for v in p[1]]
    return p[1]


def replay(case):
    if "patch" in case:
        d1 = unplain(_tup(case["d1"]), case["kind"])
        return check_update(d1, case["patch"], case["overwrite"], case)
    if "items" in case:
        case = dict(case)
        case["items"] = [[tuple(kv) for kv in it] for it in case["items"]]
        return check_find(case)
    return []


def _tup(x):
    return x
