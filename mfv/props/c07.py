"""C07 - validation verdict equals the schema's verdict."""
from __future__ import annotations

import copy
import json
from collections import OrderedDict

from .. import env, faults, model, refdict, render, vocab
from ..harness import Acc, Discrepancy, hyp_search
from .c09 import expected_names, lower_json, message_names

ID = "C07"
RULE = ("Exhaustive sweep: every keyword slot x every applicable single fault kind x context {root, nested in each parent type "
        "(quick: the first), in a child list at index 1} on a minimal valid document. Random: Hypothesis draws a schema-valid document of any of the 19 root types (valid by construction under Draft 4: bounds, "
        "arities, required keywords, maxItems), loads it from rendered text (1 in 4 built through the dict API / create()), then "
        "injects 0, 1 or 2 faults at drawn objects (any depth, any list index): value outside an enum, number below minimum / "
        "above maximum, wrong arity, wrong JSON type, bad item inside a value list, unknown keyword, required keyword removed - "
        "each confirmed invalid for its own keyword by the Draft-4 evaluator. Oracles: (1) zero faults <=> zero messages, and the "
        "set of names in the messages equals the set of injected fault names (keyword, or enclosing object for object-level "
        "faults); (2) the multiset of message names equals that derived from jsonschema.Draft4Validator over the harness's own "
        "inlined copy of the schema applied to the lower-cased JSON form; (3) validate never raises; (4) metamorphic: letter case "
        "of string values, hidden __x__ keys, plain-dict copies with mixed-case keys (valid documents), and validate([d1, d2]) == "
        "validate(d1) + validate(d2). A second search feeds arbitrary (not necessarily valid) generated documents to oracle (2). "
        "Non-trivial: >= 1 fault at depth >= 2, or 2 faults, or a valid document with >= 10 keywords. Distinct = (model, faults).")
ASSUMPTIONS = [
    "only faults that Draft 4 rejects are injected; valid values are valid under both readings of numeric exclusiveMinimum",
    "trusted base for oracle (2): the jsonschema library (mappyfile's own dependency); tested: $ref resolution from the schemas folder, lower-casing, error path -> message",
    "mixed-case keys on plain-dict copies are only checked on valid documents (messages for such copies need key lookup, which the statement does not promise)",
]
TIERS = {
    "quick": {"examples": 16000, "arbitrary": 8000, "budget_s": 110},
    "thorough": {"examples": 60000, "arbitrary": 40000, "budget_s": 1800},
}
PARTS = ["sweep", "search"]
ROOT_WEIGHTED = vocab.OBJ_TYPES + ["map"] * 8 + ["layer"] * 6 + ["class"] * 4 + ["style", "label", "legend", "scalebar", "leader"]


def names_of(msgs):
    return sorted(m["message"].split()[-1].upper() for m in msgs)   # the message names the keyword / object: its last word


def recase_values(d, ch):
    if isinstance(d, dict):
        out = type(d)(d.default_factory) if hasattr(d, "default_factory") else type(d)()
        for k, v in d.items():
            # (__type__ is a value like any other: a dictionary built by hand may say "MAP"; the other hidden keys hold
            #  bookkeeping records and stay as they are)
            out[k] = v if (isinstance(k, str) and k.startswith("__") and k != "__type__") else recase_values(v, ch)
        return out
    if isinstance(d, list):
        return [recase_values(v, ch) for v in d]
    if isinstance(d, str):
        return ch.choice([d.upper(), d.lower(), d.swapcase()])
    return d


def plain_mixed_keys(d, ch):
    if isinstance(d, dict):
        out = OrderedDict()
        for k, v in d.items():
            k2 = k if k.startswith("__") else ch.choice([k.upper(), k.capitalize(), k])
            out[k2] = plain_mixed_keys(v, ch)
        return out
    if isinstance(d, list):
        return [plain_mixed_keys(v, ch) for v in d]
    return d


def add_hidden(d, ch):
    d = copy.deepcopy(d)

    def rec(x):
        if isinstance(x, dict):
            if "__type__" in x and ch.bool():
                hk = ch.choice(["__note__", "__x__", "__comments__", "__position__"])
                # __comments__ / __position__ are declared as objects by some schemas: keep them well-typed
                if hk == "__position__":
                    if hk not in x:  # (a real position record may already be there)
                        x[hk] = {"line": 1, "column": 1}  # well-formed: validate reads positions for its messages
                elif hk == "__comments__":
                    x[hk] = {"name": "# c"}
                else:
                    x[hk] = ch.choice([1, "text", {"a": "b"}, ["l"]])
            for k, v in list(x.items()):
                if not k.startswith("__"):
                    rec(v)
        elif isinstance(x, list):
            for v in x:
                rec(v)

    rec(d)
    return d


def validate_any(d, root, public=False):
    W = env.Workers.get()
    if public and root == "map":
        import mappyfile

        return mappyfile.validate(d)
    return W.validator().validate(d, schema_name=root)


def via_dict_api(doc):
    """Build the dictionary of a valid model through the dict API (plain nested Mapfile dicts)."""
    from mappyfile.ordereddict import CaseInsensitiveOrderedDict as C

    def conv(x):
        if isinstance(x, dict):
            d = C(C)
            for k, v in x.items():
                d[k.upper() if not k.startswith("__") else k] = conv(v)  # keys given in upper case: stored lower-cased
            return d
        if isinstance(x, list):
            return [conv(v) for v in x]
        return x

    ref = refdict.refdict(doc)
    return conv(_expr_to_str(ref))


def _expr_to_str(x):
    if isinstance(x, (refdict.Expr, refdict.ListX)):
        return x.src
    if isinstance(x, dict):
        return OrderedDict((k, _expr_to_str(v)) for k, v in x.items())
    if isinstance(x, list):
        return [_expr_to_str(v) for v in x]
    return x


def check(d, root, flist, case, ch=None, public=False):
    """flist: injected fault records (possibly empty)."""
    out = []
    try:
        msgs = validate_any(d, root, public)
    except Exception as e:
        kinds = "+".join(sorted(f["kind"] for f in flist)) or "valid"
        return [Discrepancy(f"raises:{type(e).__name__}:{kinds}", f"validate raised {type(e).__name__}: {e!s:.100} (faults {[(f['kind'], f['name']) for f in flist]})", case)]
    got = names_of(msgs)
    # (1) by construction
    exp_set = sorted(set(f["name"] for f in flist))
    if sorted(set(got)) != exp_set:
        kinds = "+".join(sorted(f["kind"] for f in flist)) or "valid"
        miss = sorted(set(exp_set) - set(got))
        extra = sorted(set(got) - set(exp_set))
        out.append(Discrepancy(f"construction:{kinds}:{'missing' if miss else 'extra'}:{(miss or extra)[0]}",
                               f"injected {[(f['kind'], f['name'], f['dpath']) for f in flist]} but messages name {got}: {[m['error'][:80] for m in msgs][:3]}", case))
        return out
    # (2) schema verdict by the reference evaluator
    exp = expected_names(d, root, None)
    if got != exp:
        out.append(Discrepancy(f"verdict:{root}", f"messages name {got} but Draft 4 on the published schema gives {exp}", case))
        return out
    # (4) metamorphic relations
    if ch is not None:
        m = ch.int(0, 6)
        try:
            if m == 6:
                # the verdict does not depend on how much the library is asked to log
                import logging

                lg = logging.getLogger("mappyfile")
                old_level = lg.level
                lg.setLevel(logging.DEBUG)
                try:
                    got2 = names_of(validate_any(copy.deepcopy(d), root))
                finally:
                    lg.setLevel(old_level)
                rel = "DEBUG logging switched on"
            elif m == 5:
                # both clauses at once: a list of roots, one of them with its values (its __type__ too) in another case
                W = env.Workers.get()
                got2 = names_of(W.validator().validate([recase_values(d, ch), copy.deepcopy(d)], schema_name=root))
                got = sorted(got + got)
                rel = "list of roots, one with re-cased values"
            elif m == 4:
                # the documented add_comments option writes the messages into a copy as comments: same verdict,
                # and the annotated copy still validates to the same verdict (comments are hidden keys)
                W = env.Workers.get()
                dc = copy.deepcopy(d)
                got2 = names_of(W.validator().validate(dc, add_comments=True, schema_name=root))
                rel = "add_comments=True"
                if got2 == got:
                    got2 = names_of(validate_any(dc, root))
                    rel = "the comments written by add_comments=True"
            elif m == 0:
                got2 = names_of(validate_any(recase_values(d, ch), root))
                rel = "letter case of string values"
            elif m == 1:
                got2 = names_of(validate_any(add_hidden(d, ch), root))
                rel = "hidden __x__ keys"
            elif m == 2 and not flist:
                got2 = names_of(validate_any(plain_mixed_keys(d, ch), root))
                rel = "mixed-case keys on a plain-dict copy"
            else:
                W = env.Workers.get()
                both = W.validator().validate([d, copy.deepcopy(d)], schema_name=root)
                got2 = names_of(both)
                got = sorted(got + got)
                rel = "list of root dictionaries taken one by one"
        except Exception as e:
            return [Discrepancy(f"metamorphic_raises:{type(e).__name__}", f"validate raised {type(e).__name__} under a verdict-preserving change: {e!s:.100}", case)]
        if got2 != got:
            out.append(Discrepancy(f"metamorphic:{rel[:20]}", f"verdict changed under {rel}: {got} -> {got2}", case))
    return out


def sweep(acc: Acc, tier, shard, nshards):
    """Exhaustive single-fault sweep: every keyword slot x every applicable fault kind x context
    {root, nested once in each parent type, nested in a list at index 1}, on a minimal valid document
    that holds the keyword with a representative valid value of its first alternative."""
    from . import c19

    class First:
        """deterministic chooser: always the first choice (fault values are confirmed invalid by the evaluator)"""

        def choice(self, seq):
            return list(seq)[0]

        def int(self, lo, hi):
            return lo

        def bool(self):
            return True

        def chance(self, a, b):
            return False

    ch = First()
    W = env.Workers.get()
    idx = 0
    for t in vocab.OBJ_TYPES:
        parents = [(None, None, False)] + [(p, k, lst) for (p, k, c, lst) in vocab.child_edges()
                                           if c == t and p != "symbolset" and not (c == "symbol" and p in ("style", "class"))]
        # a list slot limited to one member (LEGEND / SCALEBAR LABEL) cannot hold the sibling that gives index 1
        parents = [(p, k, lst and not any(a.shape == "objlist" and a.node.get("maxItems") == 1 for a in vocab.slots(p)[k].alts) if p else lst)
                   for (p, k, lst) in parents]
        if tier == "quick":
            parents = parents[:2]
        for key, slot in vocab.slots(t).items():
            reps = c19.rep_values(t, slot, slot.alts[0], 1)
            if not reps or reps[0][0][0] != "attr":
                items = []   # block-valued keyword: object-level faults only
            else:
                items = reps[0]
            if t == "label" and key == "backgroundshadowsize":
                acc.excl("KF12:label_backgroundshadowsize")
                continue
            for (parent, pk, is_list) in parents:
                obj = {"t": t, "items": copy.deepcopy(items)}
                if t == "layer" and key != "type":
                    obj["items"].append(["attr", "type", "enum", "POINT"])
                if parent is None:
                    doc = [obj]
                else:
                    pobj = {"t": parent, "items": ([["obj", {"t": t, "items": ([["attr", "type", "enum", "POINT"]] if t == "layer" else [])}]] if is_list else []) + [["obj", obj]]}
                    if parent == "layer":
                        pobj["items"].append(["attr", "type", "enum", "POINT"])
                    doc = [pobj]
                sites = faults.object_sites(doc)
                site = sites[-1]
                for cand in faults.candidate_faults(site[1]):
                    if cand[1] not in (None, key):
                        continue
                    if cand[1] is None and key != next(iter(vocab.slots(t))):
                        continue   # object-level faults once per (type, context)
                    idx += 1
                    if idx % nshards != shard:
                        continue
                    text = render.render(doc).text
                    try:
                        d = W.loads(text, position=True)
                    except Exception as e:
                        acc.violations.append({"bucket": f"sweep_load:{t}.{key}", "message": f"minimal valid document rejected: {e!s:.100}", "case": {"text": text},
                                               "search": "sweep", "shard": shard, "round": 0, "seed": env.verif_seed(), "tier": tier})
                        continue
                    if expected_names(d, doc[0]["t"], None):
                        # the reference evaluator (not the code under test) says the base document is not valid:
                        # a construction slip of this harness, outside the 'one injected fault' oracle
                        acc.excl("sweep:base_document_not_valid")
                        continue
                    f = faults.apply_fault(ch, d, site, cand)
                    if f is None:
                        acc.excl("sweep:fault_not_applicable")
                        continue
                    acc.evaluations += 1
                    acc.exhaustive_cases += 1
                    acc.nontrivial.add(env.fp([t, key, cand[2], parent]))
                    acc.cls("sweep:" + cand[2])
                    acc.cls("sweep_ctx:" + ("root" if parent is None else "list_index1" if is_list else "nested"))
                    root = doc[0]["t"]
                    case = {"text": text, "root": root, "faults": [f], "dict_api": False, "doc": doc}
                    for dd in check(d, root, [f], case):
                        if not any(v["bucket"] == dd.bucket for v in acc.violations):
                            acc.violations.append({**dd.as_dict(), "search": "sweep", "shard": shard, "round": 0, "seed": env.verif_seed(), "tier": tier})


def search(acc: Acc, tier, shard, nshards):
    cfg = TIERS[tier]
    W = env.Workers.get()
    prof = faults.valid_profile()
    counter = {"i": 0}

    def body(data):
        ch = model.Ch(data.draw)
        counter["i"] += 1
        root = ch.choice(ROOT_WEIGHTED)
        p = copy.copy(prof)
        p.roots = [root]
        doc = model.Gen(ch, p).document()
        text = render.render(doc).text
        api = ch.chance(1, 4)
        try:
            d = via_dict_api(doc) if api else W.loads(text, position=ch.bool())
        except Exception as e:
            return [Discrepancy(f"load:{type(e).__name__}", f"valid document rejected by loads: {e!s:.120}", {"text": text})]
        sites = faults.object_sites(doc)
        nf = ch.choice([0, 1, 1, 1, 2])
        flist = []
        allc = [(site, cand) for site in sites for cand in faults.candidate_faults(site[1])]
        allc += [(site, (None, None, "member_not_object")) for site in sites if site[2] and isinstance(site[2][-1], int)]
        for _ in range(nf):
            kind = ch.choice(faults.FAULT_KINDS)
            pool = [sc for sc in allc if sc[1][2] == kind] or allc
            deep = [sc for sc in pool if len(sc[0][2]) >= 2]
            site, cand = ch.choice(deep if (deep and ch.chance(2, 3)) else pool)
            if any(f["dpath"] == list(site[2]) and (f["key"] == cand[1] or f["object_level"] or cand[0] is None) for f in flist):
                continue  # one fault per keyword; object-level faults not mixed with others in one object
            if cand[2] == "member_not_object" and flist:
                continue  # replacing a whole child object: only as the single fault of a document
            if any(f["kind"] == "member_not_object" for f in flist):
                continue
            f = faults.apply_fault(ch, d, site, cand)
            if f is None:
                acc.excl("fault_not_invalid_or_inapplicable")
                continue
            flist.append(f)
        s = model.stats_of(doc)
        deep = any(len(f["dpath"]) >= 2 for f in flist)
        nt = deep or len(flist) == 2 or (not flist and s["keywords"] >= 10)
        acc.case([doc, [(f["kind"], f["dpath"], f["key"]) for f in flist]], nt,
                 sample={"text": text[:700], "faults": [{k: f[k] for k in ("kind", "dpath", "key", "name")} for f in flist]} if len(text) > 120 else None)
        acc.cls("root:" + root)
        acc.cls("faults:%d" % len(flist))
        acc.cls("source:" + ("dict_api" if api else "loads"))
        for f in flist:
            acc.cls("fault:" + f["kind"])
            acc.cls("fault_depth:%d" % min(len([x for x in f["dpath"] if isinstance(x, str)]), 4))
            if any(isinstance(x, int) and x > 0 for x in f["dpath"]):
                acc.cls("fault_at_list_index>0")
        case = {"text": text, "root": root, "faults": flist, "dict_api": api, "doc": doc}
        return check(d, root, flist, case, ch, public=ch.chance(1, 50))

    hyp_search(acc, ID, "valid_plus_faults", shard, cfg["examples"] // nshards, body, tier)

    aprof = model.Profile(max_depth=3, max_items=6, multi_root=False, symbolset=False, kv_roots=False)

    def body_arbitrary(data):
        ch = model.Ch(data.draw)
        doc = model.Gen(ch, aprof).document()
        text = render.render(doc).text
        root = doc[0]["t"]
        pos = ch.bool()
        try:
            d = W.loads(text, position=pos)
        except Exception as e:
            return [Discrepancy(f"load:{type(e).__name__}", f"document rejected by loads: {e!s:.120}", {"text": text})]
        case = {"text": text, "root": root, "arbitrary": True, "position": pos}
        try:
            msgs = validate_any(d, root)
        except Exception as e:
            return [Discrepancy(f"raises:{type(e).__name__}:arbitrary", f"validate raised {type(e).__name__}: {e!s:.100}", case)]
        got, exp = names_of(msgs), expected_names(d, root, None)
        acc.case(doc, len(got) > 0, sample=None)
        acc.cls("arbitrary:messages:%d" % min(len(got), 5))
        if got != exp:
            return [Discrepancy(f"verdict_arbitrary:{root}", f"messages name {got} but Draft 4 on the published schema gives {exp}", case)]
        return []

    hyp_search(acc, ID, "arbitrary_documents", shard, cfg["arbitrary"] // nshards, body_arbitrary, tier)


def replay(case):
    W = env.Workers.get()
    if case.get("arbitrary"):
        d = W.loads(case["text"], position=case.get("position", False))
        try:
            got = names_of(validate_any(d, case["root"]))
        except Exception as e:
            return [Discrepancy(f"raises:{type(e).__name__}:arbitrary", f"validate raised {type(e).__name__}: {e!s:.100}", case)]
        exp = expected_names(d, case["root"], None)
        return [Discrepancy("verdict_arbitrary", f"{got} vs {exp}", case)] if got != exp else []
    if "doc" in case and case.get("dict_api"):
        d = via_dict_api(case["doc"])
    else:
        d = W.loads(case["text"], position=True)
    for f in case.get("faults", []):
        o = faults.find(d, f["dpath"])
        if f["kind"] == "unknown_keyword":
            o[f["key"]] = 1
        elif f["kind"] == "missing_required":
            o.pop(f["key"], None)
        elif f["kind"] == "repeated_item":
            o[f["key"]][f["occurrence"]] = eval(f["value"], {"__builtins__": {}}, {"inf": float("inf"), "nan": float("nan")})
        elif f["kind"] == "member_not_object":
            o[f["key"]][f["index"]] = eval(f["value"], {"__builtins__": {}}, {"inf": float("inf"), "nan": float("nan")})
        else:
            o[f["key"]] = eval(f["value"], {"__builtins__": {}}, {"inf": float("inf"), "nan": float("nan")})
    return check(d, case["root"], case.get("faults", []), case)
