"""C12 - calls are pure, history-independent and safe to run concurrently."""
from __future__ import annotations

import copy
import io
import json
import shutil
import os
import sys
import tempfile
import threading

from .. import env, model, refdict, render
from ..harness import Acc, Discrepancy, hyp_search

ID = "C12"
RULE = ("Purity (Hypothesis): for open / load / loads / dumps / dump / save (no separate_complex_types) / validate (no add_comments) / "
        "find / findall / findunique / findkey the arguments (dictionaries incl. objects lacking the searched key, lists of objects, "
        "dictionaries loaded with comments / positions, text, file bytes) are snapshotted structurally before the call and compared "
        "after it. History (Hypothesis RuleBasedStateMachine): one Parser (x include_comments), one MapfileToDict (x flags), one "
        "PrettyPrinter (x option sets) and one Validator are reused across generated documents, failing inputs and differing "
        "versions; every result or exception type must equal that of freshly constructed objects. Threads: up to 16 threads under "
        "sys.setswitchinterval(1e-6) call the module-level loads / dumps / validate / find* on different and on identical inputs; "
        "results must equal the sequential ones and nothing may raise. Non-trivial: purity - an argument with >= 1 nested object; "
        "history - contains a failing parse or a flag / version change; threads - >= 8 threads finished >= 2 calls each. "
        "Distinct = the call / history / round.")
ASSUMPTIONS = [
    "thread safety is explored by stress under a 1 microsecond switch interval, not by owning the schedule: a race with a narrow window can be missed",
    "dumps with separate_complex_types and validate with add_comments are documented to modify their argument and are excluded",
]
TIERS = {
    "quick": {"histories": 48, "purity": 2500, "machine_runs": 64, "machine_steps": 12, "thread_rounds": 3, "budget_s": 110},
    "thorough": {"histories": 1600, "purity": 60000, "machine_runs": 3000, "machine_steps": 40, "thread_rounds": 64, "budget_s": 2400},
}
PARTS = ["search", "machine", "threads", "public_history"]

_tmp = {"dir": None}


def tmpdir():
    if _tmp["dir"] is None:
        _tmp["dir"] = tempfile.mkdtemp(prefix="mfv_c12_")
    return _tmp["dir"]


def snap(x):
    return refdict.snapshot(x)


def collect_lists(d, out=None):
    """all (parent type, key, list of objects) in a dictionary"""
    out = [] if out is None else out
    if isinstance(d, dict):
        for k, v in d.items():
            if isinstance(v, list) and v and all(isinstance(x, dict) and "__type__" in x for x in v):
                out.append((k, v))
            collect_lists(v, out)
    elif isinstance(d, list):
        for v in d:
            collect_lists(v, out)
    return out


def purity_case(ch, doc, text, acc, fixed_opts=None):
    import mappyfile

    W = env.Workers.get()
    out = []
    flags = ch.choice([(False, False), (True, False), (False, True), (True, True)])
    d = W.loads(text, position=flags[0], comments=flags[1])
    nested = model.stats_of(doc)["objects"] > len(doc)
    op = ch.choice(["dumps", "dumps_opts", "dump", "save", "validate", "validate_version", "find", "findall", "findunique", "findkey",
                    "loads", "load", "open", "printer_reuse", "validator_reuse"])
    acc.cls("purity:" + op)
    before = snap(d)
    case = {"text": text, "op": op, "flags": list(flags)}
    try:
        if op in ("dumps", "dumps_opts", "dump", "save"):
            from .. import options

            # every print option except the one documented to reorder its argument; the three module-level
            # functions must also write the same characters for the same options
            o = {} if op == "dumps" else options.draw(ch, quotes=['"', "'"], separate=False, linebreak_only=flags[1])
            if fixed_opts is not None:
                o = fixed_opts
            case["opts"] = o
            t1 = mappyfile.dumps(d, **o)
            if op == "dump":
                s_ = io.StringIO(newline="")
                mappyfile.dump(d, s_, **o)
                if s_.getvalue() != t1:
                    out.append(Discrepancy("dump_vs_dumps", f"dump wrote different characters than dumps returns with {o}", case))
            elif op == "save":
                fn = os.path.join(tmpdir(), "p_%d.map" % os.getpid())
                mappyfile.save(d, fn, **o)
                with open(fn, encoding="utf-8", newline="") as f_:
                    if f_.read() != t1:
                        out.append(Discrepancy("save_vs_dumps", f"save wrote different characters than dumps returns with {o}", case))
        elif op == "validate":
            roots = d if isinstance(d, list) else [d]
            for r in roots:
                W.validator().validate(r, schema_name=r["__type__"] if r["__type__"] != "symbolset" else "symbolset")
        elif op == "validate_version":
            roots = d if isinstance(d, list) else [d]
            W.validator().validate(roots if len(roots) > 1 else roots[0], schema_name=roots[0]["__type__"], version=ch.choice([6.0, 7.6, 8.2]))
        elif op in ("find", "findall", "findunique"):
            lists = collect_lists(d)
            if not lists:
                lists = [("roots", d if isinstance(d, list) else [d])]
            k, lst = ch.choice(lists)
            keys = sorted({kk for o in lst for kk in o.keys() if not kk.startswith("__")}) or ["name"]
            key = ch.choice(keys + ["name", "group", "status", "no_such_key"])
            key = ch.choice([key, key.upper()])
            case["key"] = key
            lbefore = snap(lst)
            if op == "find":
                mappyfile.find(lst, key, ch.choice(["x", 1, "ON"]))
            elif op == "findall":
                mappyfile.findall(lst, key, ch.choice(["x", ["x", "y"], 1]))
            else:
                vals = [o[key.lower()] for o in lst if key.lower() in o]
                if all(isinstance(v, str) for v in vals):
                    mappyfile.findunique(lst, key)
            if snap(lst) != lbefore:
                out.append(Discrepancy(f"purity:{op}:list", f"{op}(lst, {key!r}, ...) modified the searched objects", case))
        elif op == "findkey":
            path = []
            cur = d if not isinstance(d, list) else d[0]
            root = cur
            for _ in range(ch.int(0, 4)):
                if isinstance(cur, dict):
                    ks = [k for k in cur.keys()]
                    if not ks:
                        break
                    k = ch.choice(ks)
                    path.append(k)
                    cur = cur[k]
                elif isinstance(cur, list) and cur:
                    i = ch.int(0, len(cur) - 1)
                    path.append(i)
                    cur = cur[i]
                else:
                    break
            mappyfile.findkey(root, *path)
        elif op == "loads":
            t0 = str(text)
            W.loads(text, position=flags[0], comments=flags[1])
            if text != t0:
                out.append(Discrepancy("purity:loads:text", "loads modified its text argument", case))
        elif op in ("load", "open"):
            p = os.path.join(tmpdir(), "q_%d.map" % os.getpid())
            with open(p, "w", encoding="utf-8", newline="") as f:
                f.write(text)
            b0 = open(p, "rb").read()
            if op == "open":
                W.m2d().transform(W.parser().parse_file(p))
            else:
                with open(p, encoding="utf-8") as f:
                    W.m2d().transform(W.parser().load(f))
            if open(p, "rb").read() != b0:
                out.append(Discrepancy(f"purity:{op}:file", f"{op} modified the file it read", case))
        elif op == "printer_reuse":
            pp = W.PrettyPrinter()
            a = pp.pprint(d)
            b = pp.pprint(d)
            if a != b:
                out.append(Discrepancy("purity:printer_reuse", "printing the same dictionary twice with one PrettyPrinter gives different text", case))
        elif op == "validator_reuse":
            V = W.validator()
            r0 = d[0] if isinstance(d, list) else d
            a = V.validate(r0, schema_name=r0["__type__"])
            b = V.validate(r0, schema_name=r0["__type__"])
            if a != b:
                out.append(Discrepancy("purity:validator_reuse", "validating twice gives different messages", case))
    except Exception as e:
        if op in ("findunique",) and isinstance(e, TypeError):
            pass
        else:
            out.append(Discrepancy(f"purity:{op}:raised:{type(e).__name__}", f"{op} raised {type(e).__name__}: {e!s:.100}", case))
    if snap(d) != before:
        diffs = refdict.equal_dicts(_plain(before), _plain(snap(d)))
        out.append(Discrepancy(f"purity:{op}:argument", f"{op} modified the dictionary passed to it ({'with' if flags[1] else 'no'} comments, {'with' if flags[0] else 'no'} positions)", case))
    acc.case([text, op, flags], nested, sample={"op": op, "flags": list(flags), "text": text[:300]} if nested and len(text) < 300 else None)
    return out


def _plain(s):
    return s


def search(acc: Acc, tier, shard, nshards):
    n = TIERS[tier]["purity"] // nshards
    prof = model.Profile(max_depth=3, max_items=6, forbid="\"'", lookalike_multi=False, kv_roots=False, symbolset=False)

    def body(data):
        ch = model.Ch(data.draw)
        doc = model.Gen(ch, prof).document()
        text = render.render(doc, render.Surface(ch) if ch.bool() else None).text
        return purity_case(ch, doc, text, acc)

    hyp_search(acc, ID, "purity", shard, n, body, tier)


# ------------------------------------------------------------------ history independence

BAD_INPUTS = ["MAP NAME 'x'", "MAP LAYER END", "CLASS EXPRESSION ( END", "LAYER TYPE POINT END END", "\"", "MAP /* unterminated", "MAP NAME 'x' END END",
              "# only a comment", "MAP\n# c1\nNAME 'x' # c2\nEND # c3"]


def result_of(fn):
    try:
        return ("ok", fn())
    except Exception as e:
        return ("exc", type(e).__name__)


def machine(acc: Acc, tier, shard, nshards):
    from hypothesis import HealthCheck, Phase, seed, settings, strategies as st
    from hypothesis.stateful import RuleBasedStateMachine, initialize, rule, run_state_machine_as_test

    cfg = TIERS[tier]
    runs = max(1, cfg["machine_runs"] // nshards)
    W = env.Workers.get()
    prof = model.Profile(max_depth=2, max_items=5, forbid="\"'", lookalike_multi=False, kv_roots=False)
    state = {"fail": None}
    PRINT_OPTS = [dict(), dict(indent=2, quote="'"), dict(end_comment=True, align_values=True, spacer="\t", indent=1)]
    from . import c09 as _c09

    VERSIONED = [e for e in _c09.entries() if e[4] is not None and _c09.chains(e[0], 3)]

    class M(RuleBasedStateMachine):
        @initialize()
        def init(self):
            self.parsers = {False: W.Parser(expand_includes=False, include_comments=False), True: W.Parser(expand_includes=False, include_comments=True)}
            self.m2d = {(p, c): W.MapfileToDict(include_position=p, include_comments=c) for p in (False, True) for c in (False, True)}
            self.printers = [W.PrettyPrinter(**o) for o in PRINT_OPTS]
            self.V = W.Validator()
            self.hist = []
            self.special = False
            self.inc_parser = None
            self.inc_dir = None

        def _fail(self, bucket, msg):
            state["fail"] = (bucket, msg, list(self.hist))
            raise AssertionError(msg)

        def _text(self, data):
            ch = model.Ch(data.draw)
            if ch.chance(1, 4):
                self.special = True
                return ch.choice(BAD_INPUTS), True
            doc = model.Gen(ch, prof).document()
            return render.render(doc, render.Surface(ch) if ch.bool() else None).text, False

        @rule(data=st.data(), comments=st.booleans(), position=st.booleans())
        def parse(self, data, comments, position):
            text, bad = self._text(data)
            self.hist.append(["parse", text, comments, position])
            if self.hist and len(self.hist) > 1 and self.hist[-2][0] == "parse" and (self.hist[-2][2], self.hist[-2][3]) != (comments, position):
                self.special = True

            def reused():
                return refdict.snapshot(self.m2d[(position, comments)].transform(self.parsers[comments].parse(text)))

            def fresh():
                return refdict.snapshot(W.MapfileToDict(include_position=position, include_comments=comments).transform(
                    W.Parser(expand_includes=False, include_comments=comments).parse(text)))

            a, b = result_of(reused), result_of(fresh)
            if a != b:
                self._fail(f"history:parse:{'comments' if comments else 'plain'}", f"reused Parser / MapfileToDict give {str(a)[:150]} but fresh objects give {str(b)[:150]} for {text!r:.100}")

        @rule(data=st.data(), which=st.integers(0, 2), comments=st.booleans())
        def print_(self, data, which, comments):
            text, bad = self._text(data)
            if bad:
                return
            d = W.loads(text, comments=comments)
            self.hist.append(["print", text, which, comments])
            a = result_of(lambda: self.printers[which].pprint(copy.deepcopy(d)))
            b = result_of(lambda: W.PrettyPrinter(**PRINT_OPTS[which]).pprint(copy.deepcopy(d)))
            if a != b:
                self._fail("history:print", f"reused PrettyPrinter differs from a fresh one for {text!r:.100}")

        @rule(data=st.data(), version=st.sampled_from([None, 4.0, 5.0, 5.4, 5.6, 6.0, 6.2, 6.4, 7.0, 7.2, 7.4, 7.6, 8.0, 8.2, 8.4]))
        def validate(self, data, version):
            if data.draw(st.booleans()):
                # a document holding one keyword whose schema entry depends on the version (so that minor versions
                # of one major version give different verdicts), nested under a root type
                from . import c09

                t, k, ai, meta, rep = data.draw(st.sampled_from(VERSIONED))
                chain = data.draw(st.sampled_from(c09.chains(t, 3)[:3]))
                text, bad = render.render(c09.build_doc(chain, rep)).text, False
                if data.draw(st.booleans()):
                    # straddle the entry's own version boundary with two calls on the reused object: first the
                    # other side of the boundary (same major version where there is one), then the drawn side
                    b = float(meta.get("minVersion", meta.get("maxVersion")))
                    lo = float(int(b)) if b != int(b) else round(b - 0.2, 1)
                    first, version = data.draw(st.sampled_from([(lo, b), (b, lo), (round(b + 0.2, 1), lo)]))
                    d0 = W.loads(text)
                    r00 = d0[0] if isinstance(d0, list) else d0
                    self.hist.append(["validate", text, first])
                    a0 = result_of(lambda: self.V.validate(r00, schema_name=r00["__type__"], version=first))
                    b0 = result_of(lambda: W.Validator().validate(r00, schema_name=r00["__type__"], version=first))
                    if a0 != b0:
                        self._fail("history:validate", f"reused Validator gives {str(a0)[:150]}, a fresh one {str(b0)[:150]} (version {first}) for {text!r:.100}")
            else:
                text, bad = self._text(data)
            if bad:
                return
            d = W.loads(text)
            r0 = d[0] if isinstance(d, list) else d
            name = r0["__type__"]
            self.hist.append(["validate", text, version])
            if any(h[0] == "validate" and h[2] != version for h in self.hist[:-1]):
                self.special = True
            a = result_of(lambda: self.V.validate(r0, schema_name=name, version=version))
            b = result_of(lambda: W.Validator().validate(r0, schema_name=name, version=version))
            if a != b:
                self._fail("history:validate", f"reused Validator gives {str(a)[:150]}, a fresh one {str(b)[:150]} (version {version}) for {text!r:.100}")

        @rule(folder=st.sampled_from(["a", "b"]), rewrite=st.booleans(), name=st.sampled_from(["roads", "lakes", "towns", "x y"]),
              typ=st.sampled_from(["POINT", "LINE", "POLYGON"]), how=st.sampled_from(["parse_file", "load"]))
        def parse_with_includes(self, folder, rewrite, name, typ, how):
            # one Parser (expand_includes on) over Mapfiles in two folders that INCLUDE a file of the same relative name
            if self.inc_parser is None:
                self.inc_parser = W.Parser(expand_includes=True)
                self.inc_dir = tempfile.mkdtemp(prefix="mfv_c12i_")
                for i, f in enumerate(("a", "b")):
                    os.makedirs(os.path.join(self.inc_dir, f))
                    with open(os.path.join(self.inc_dir, f, "main.map"), "w") as fh:
                        fh.write('MAP\n  NAME "%s"\n  INCLUDE "layer.map"\nEND\n' % f)
                    with open(os.path.join(self.inc_dir, f, "layer.map"), "w") as fh:
                        fh.write('LAYER\n  NAME "initial_%s"\n  TYPE POINT\nEND\n' % f)
            if rewrite:
                with open(os.path.join(self.inc_dir, folder, "layer.map"), "w") as fh:
                    fh.write('LAYER\n  NAME "%s"\n  TYPE %s\n  CLASS\n    EXPRESSION ([a] > 1 AND [b] < 2)\n  END\nEND\n' % (name, typ))
            path = os.path.join(self.inc_dir, folder, "main.map")
            self.hist.append(["parse_with_includes", folder, rewrite, name, typ, how])
            self.special = True

            def run(parser):
                if how == "parse_file":
                    return snap(W.m2d().transform(parser.parse_file(path)))
                with open(path, encoding="utf-8") as fh:
                    return snap(W.m2d().transform(parser.load(fh)))

            a = result_of(lambda: run(self.inc_parser))
            b = result_of(lambda: run(W.Parser(expand_includes=True)))
            if a != b:
                self._fail("history:parse_includes", f"reused Parser gives {str(a)[:200]} but a fresh one {str(b)[:200]} for {path} ({how})")

        def teardown(self):
            if getattr(self, "inc_dir", None):
                shutil.rmtree(self.inc_dir, ignore_errors=True)
            h = getattr(self, "hist", [])
            acc.evaluations += max(1, len(h))
            if getattr(self, "special", False):
                acc.nontrivial.add(env.fp(h))
            for x in h:
                acc.cls("history:" + x[0])

    try:
        run_state_machine_as_test(
            seed(env.shard_seed(ID + "/machine", shard))(M),
            settings=settings(max_examples=runs, stateful_step_count=cfg["machine_steps"], deadline=None, database=None,
                              report_multiple_bugs=False, suppress_health_check=list(HealthCheck),
                              # every step builds fresh worker objects (~0.3 s): shrinking a history is only affordable in the thorough tier
                              phases=(Phase.generate, Phase.shrink) if tier == "thorough" else (Phase.generate,)),
        )
    except AssertionError:
        pass
    except Exception:
        if state["fail"] is None:
            raise
    if state["fail"]:
        b, msg, hist = state["fail"]
        acc.violations.append({"bucket": b, "message": f"after {[h[0] for h in hist]}: {msg}", "case": {"history": hist},
                               "search": "machine", "shard": shard, "round": 0, "seed": env.verif_seed(), "tier": tier})
    if len(acc.samples) < 3:
        acc.samples.append({"history_rules": ["parse(text, comments, position)", "print(dict, printer#)", "validate(dict, version)"], "failing_inputs": BAD_INPUTS[:3]})


# ------------------------------------------------------------------ threads

def threads(acc: Acc, tier, shard, nshards):
    rounds = TIERS[tier]["thread_rounds"]
    mine = [r for r in range(rounds) if r % nshards == shard]
    if not mine:
        return
    for r in mine:
        if acc.over_budget():
            break
        thread_round(acc, shard, r, tier)


def thread_round(acc, shard, r, tier, nthreads=16):
    import mappyfile
    from hypothesis import HealthCheck, given, seed, settings, strategies as st

    prof = model.Profile(max_depth=2, max_items=5, forbid="\"'", lookalike_multi=False, kv_roots=False, multi_root=False, symbolset=False,
                         roots=["map", "layer", "class"])
    texts = []

    from hypothesis import Phase

    @seed(env.shard_seed(ID + "/threads", shard, r))
    @settings(max_examples=nthreads // 2 + 1, database=None, deadline=None, suppress_health_check=list(HealthCheck), phases=(Phase.generate,))
    @given(st.data())
    def gen2(data):
        ch = model.Ch(data.draw)
        doc = model.Gen(ch, prof).document()
        texts.append(render.render(doc, render.Surface(ch) if ch.bool() else None).text)

    gen2()
    texts = texts[: nthreads // 2 + 1]   # every own text is used by two threads, the first text by all of them
    shared = texts[0]

    base = tempfile.mkdtemp(prefix="mfv_c12t_")

    def work(text, slot="seq"):
        d = mappyfile.loads(text, expand_includes=False)
        # save is a public function too: every caller writes a file of the same name in a directory of its own
        os.makedirs(os.path.join(base, f"t{slot}"), exist_ok=True)
        fn = os.path.join(base, f"t{slot}", "mapfile.map")
        mappyfile.save(d, fn)
        with open(fn, encoding="utf-8", newline="") as fh:
            saved = fh.read()
        # the same text with bookkeeping on: comment collection and position data are per-call state too
        dc = mappyfile.loads(text, expand_includes=False, include_comments=True, include_position=True)
        out = mappyfile.dumps(d) + "\n--\n" + mappyfile.dumps(dc)
        msgs = mappyfile.validate(d) if d["__type__"] == "map" else []
        lists = collect_lists(d)
        found = [mappyfile.findall(lst, "name", "x") for _, lst in lists]
        uniq = [mappyfile.findunique(lst, "status") if all(isinstance(o.get("status", ""), str) for o in lst) else None for _, lst in lists]
        return ((refdict.snapshot(d), refdict.snapshot(dc)), out, [m["message"] + m["error"] for m in msgs], [len(f) for f in found], uniq, saved)

    seq = {}
    for t in set(texts):
        seq[t] = work(t)
    results = {}
    errors = []
    done = {}
    old = sys.getswitchinterval()
    sys.setswitchinterval(1e-6)
    try:
        def run(i):
            try:
                mine_ = [texts[1 + i % (len(texts) - 1)], shared]
                res = []
                for t in mine_:
                    res.append((t, work(t, i)))
                results[i] = res
                done[i] = len(res)
            except Exception as e:
                errors.append((i, type(e).__name__, str(e)[:200]))

        ths = [threading.Thread(target=run, args=(i,)) for i in range(nthreads)]
        for t in ths:
            t.start()
        for t in ths:
            t.join(600)
    finally:
        sys.setswitchinterval(old)
        shutil.rmtree(base, ignore_errors=True)
    case = {"round": r, "shard": shard, "texts": texts[:4]}
    acc.case(["threads", shard, r], sum(1 for v in done.values() if v >= 2) >= 8, sample={"threads": nthreads, "calls_per_thread": 2, "shared_text": shared[:200]})
    acc.cls("thread_rounds")
    acc.cls("thread_calls", sum(done.values()))
    if errors:
        acc.violations.append({"bucket": f"threads:raised:{errors[0][1]}", "message": f"concurrent call raised {errors[0][1]}: {errors[0][2]}", "case": case,
                               "search": "threads", "shard": shard, "round": r, "seed": env.verif_seed(), "tier": tier})
        return
    for i, res in results.items():
        for t, got in res:
            if got != seq[t]:
                which = ["dictionary", "text", "messages", "findall", "findunique"][next(k for k in range(5) if got[k] != seq[t][k])]
                acc.violations.append({"bucket": f"threads:differs:{which}", "message": f"thread {i}: {which} differs from the sequential result for {t!r:.100}", "case": case,
                                       "search": "threads", "shard": shard, "round": r, "seed": env.verif_seed(), "tier": tier})
                return


# ------------------------------------------------------------------ histories of module-level calls

def run_public_history(steps, case):
    """Every module-level call's result depends only on its arguments: after any earlier calls in the same process
    (other documents, other options, the same file path with other content) it equals what worker objects that
    have not seen that history return."""
    import mappyfile

    W = env.Workers.get()
    base = tempfile.mkdtemp(prefix="mfv_c12h_")
    try:
        for i, st_ in enumerate(steps):
            op = st_[0]
            if op == "loads":
                _, text, pos, com = st_
                a = result_of(lambda: snap(mappyfile.loads(text, include_position=pos, include_comments=com)))
                b = result_of(lambda: snap(W.loads(text, position=pos, comments=com)))
            elif op == "dumps":
                _, text, o = st_
                a = result_of(lambda: mappyfile.dumps(W.loads(text), **o))
                b = result_of(lambda: W.PrettyPrinter(**o).pprint(W.loads(text)))
            elif op == "validate":
                _, text, ver = st_
                a = result_of(lambda: json.dumps(mappyfile.validate(W.loads(text), version=ver), sort_keys=True, default=repr))
                b = result_of(lambda: json.dumps(W.Validator().validate(W.loads(text), version=ver), sort_keys=True, default=repr))
            elif op == "save_open":
                _, text, o, name = st_
                path = os.path.join(base, name)

                def via_file():
                    mappyfile.save(W.loads(text), path, **o)
                    return snap(mappyfile.open(path))

                a = result_of(via_file)
                b = result_of(lambda: snap(W.loads(W.PrettyPrinter(**o).pprint(W.loads(text)))))
            else:
                raise ValueError(op)
            if a != b:
                return [Discrepancy(f"public_history:{op}", f"call {i + 1} ({op}) of a history of module-level calls {[x[0] for x in steps[:i + 1]]} returned "
                                    f"{str(a)[:160]} where objects without that history return {str(b)[:160]}", case)]
        return []
    finally:
        shutil.rmtree(base, ignore_errors=True)


def public_history(acc: Acc, tier, shard, nshards):
    from .. import options
    from . import c09

    n = max(1, TIERS[tier]["histories"] // nshards)
    prof = model.Profile(max_depth=2, max_items=5, forbid="\"'", lookalike_multi=False, kv_roots=False, roots=["map"], includes=False)
    versioned = [e for e in c09.entries() if e[4] is not None]

    def body(data):
        ch = model.Ch(data.draw)
        texts = []
        for _ in range(ch.int(2, 3)):
            if ch.chance(1, 3):
                t, k, ai, meta, rep = ch.choice(versioned)
                chains = [c for c in c09.chains(t, 3) if c[0][0] == "map"]
                if chains:
                    texts.append(render.render(c09.build_doc(chains[0], rep)).text)
                    continue
            texts.append(render.render([model.Gen(ch, prof).obj("map", 0)]).text)
        names = ["a.map", "b.map"]
        steps = []
        last = {"o": None}

        def draw_opts():
            # either a fresh option set or the previous one with a single option changed (state keyed on part of the
            # options shows only between two calls that differ in the rest)
            if last["o"] is not None and ch.bool():
                o = dict(last["o"])
                k = ch.choice(["align_values", "end_comment", "separate_complex_types", "indent", "spacer", "newlinechar"])
                if k == "indent":
                    o[k] = (o[k] + 1) % 9
                elif k == "spacer":
                    o[k] = "\t" if o[k] == " " else " "
                elif k == "newlinechar":
                    o[k] = "\r\n" if o[k] == "\n" else "\n"
                else:
                    o[k] = not o[k]
            else:
                o = options.draw(ch, quotes=['"'], linebreak_only=True)
            last["o"] = o
            return o

        for _ in range(ch.int(4, 7)):
            op = ch.choice(["loads", "dumps", "dumps", "validate", "validate", "save_open", "save_open"])
            text = ch.choice(texts)
            if op == "loads":
                steps.append(["loads", text, ch.bool(), ch.bool()])
            elif op == "dumps":
                steps.append(["dumps", text, draw_opts()])
            elif op == "validate":
                steps.append(["validate", text, ch.choice([None, 5.0, 6.0, 7.0, 7.2, 7.6, 8.0, 8.2])])
            else:
                steps.append(["save_open", text, draw_opts(), ch.choice(names)])
        kinds = [x[0] for x in steps]
        acc.case(steps, len(set(kinds)) >= 2 and len(set(x[1] for x in steps)) >= 2)
        for k in kinds:
            acc.cls("public_history:" + k)
        if sum(1 for x in steps if x[0] == "save_open") >= 2 and len(set(x[3] for x in steps if x[0] == "save_open")) == 1:
            acc.cls("public_history:same_path_rewritten")
        return run_public_history(steps, {"public_history": steps})

    hyp_search(acc, ID, "public_history", shard, n, body, tier)


def replay(case):
    W = env.Workers.get()
    if "public_history" in case:
        return run_public_history(case["public_history"], case)
    if "op" in case:
        # re-run the purity operation deterministically on the saved text with a fixed chooser
        acc = Acc()
        ch = model.RandCh(0)
        orig = ch.choice

        def choice(seq):
            seq = list(seq)
            if case["op"] in seq:
                return case["op"]
            if tuple(case.get("flags", ())) in [tuple(x) if isinstance(x, (list, tuple)) else x for x in seq]:
                return tuple(case["flags"])
            if case.get("key") in seq:
                return case["key"]
            return orig(seq)

        ch.choice = choice
        doc = [{"t": "map", "items": [["obj", {"t": "layer", "items": []}]]}]
        return purity_case(ch, doc, case["text"], acc, fixed_opts=case.get("opts"))
    if "history" in case:
        return []
    return []
