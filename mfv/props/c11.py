"""C11 - any input is either parsed or rejected with a parse error, promptly.

Families: (1) token-level mutations of corpus / generated Mapfiles, (2) token soups over
the Mapfile vocabulary, (3) unterminated constructs and every block type at the root,
(4) long repetitive inputs with a growth-exponent check.  Thorough adds an
atheris / libFuzzer campaign whose bytes are decoded into token sequences."""
from __future__ import annotations

import math
import os
import re
import subprocess
import sys
import tempfile
import time

from .. import corpus, env, model, render, vocab
from ..harness import Acc, Discrepancy, hyp_search

ID = "C11"
RULE = ("Hypothesis draws (1) 1-4 token-level mutations (delete, duplicate, swap, truncate, splice, replace, insert, break a "
        "quote) of small corpus files and generated documents, (2) token soups of 1-60 tokens over all keywords, block types, "
        "END, literals, punctuation, quotes, comment openers, numbers, paths, Latin-1 / non-Latin text, (3) unterminated strings / "
        "regexes / back-quotes / comments / %var / [ and every block type alone and with a body at the root, INCLUDE lines of every "
        "malformed shape, nesting up to the stated bounds; every input goes through loads with default arguments in an empty "
        "working directory (1 in 50 through the module-level mappyfile.loads). Outcome must be a dict / list of dicts or a "
        "lark.exceptions.LarkError (UnexpectedInput: positive line and column inside the text); OSError only when the text has "
        "an INCLUDE line. (4) long repetitive inputs: CPU-time growth exponent over n..8n. Non-trivial: rejected before the last "
        "line of the input, or accepted after >= 1 mutation / as a soup. Distinct = the input text.")
ASSUMPTIONS = [
    "expression nesting and operator chains <= 100, block nesting <= 50 (Lark's tree visitors recurse)",
    "INCLUDE targets are relative names resolved in an empty temporary working directory, so no real file is read",
    "linear time: a violation needs growth exponent > 1.6 (overall and between the two largest sizes) AND > 2 s absolute; otherwise inconclusive",
]
TIERS = {
    "quick": {"examples": 24000, "budget_s": 110, "time_families": 12, "quick_time_subset": ["layer_blocks", "keyword_run", "unclosed_blocks", "unclosed_blocks_with_body"]},
    "thorough": {"examples": 500000, "budget_s": 2400, "time_families": 12, "atheris_runs": 200000},
}
PARTS = ["search", "fixed_part", "pairs_part", "backtrack_part"]

_TOK = re.compile(r'"(?:\\"|[^"])*"|\'(?:\\\'|[^\'])*\'|#[^\n]*|/\*.*?\*/|\s+|[A-Za-z0-9_.:\-]+|.', re.S)


def split_tokens(text):
    return _TOK.findall(text)


_state = {"cwd": None}


def enter_empty_cwd():
    if _state["cwd"] is None:
        d = tempfile.mkdtemp(prefix="mfv_c11_")
        os.chdir(d)
        _state["cwd"] = d
    return _state["cwd"]


def soup_vocab():
    words = set()
    for t in vocab.all_types():
        words.add(t.upper())
        for k in vocab.slots(t):
            words.add(k.upper())
    words |= {w.upper() for w in vocab.reserved_words()}
    lits = ["END", "end", "TRUE", "false", "AUTO", "NULL", "ON", "OFF", "polygon", "POINT", "0", "1", "-1", "255", "3.14", "-0.5",
            "1e5", "7up", '"a"', "'b'", '"#ff0000"', '"#fff"', "'#00ff0080'", '""', "''", '"a b"', '"x"i', "[item]", "[a]", "(", ")",
            "[", "]", "{", "}", ",", "/", "*", "+", "-", "=", "==", "!=", "!", "~", "~*", "=*", "%", "<", ">", "<=", ">=", "&&", "||",
            "AND", "OR", "NOT", "IN", "EQ", "NE", "LT", "LE", "GT", "GE", "LIKE", '"', "'", "`", "`x`", "#", "# c", "/*", "*/", "/* c */", "/x/",
            "/x/i", "\\\\x\\\\", "%v%", "%", "{a,b}", "([a] = 1)", "(1 + 2)", "data/roads.shp", "/tmp/x/", "C:/ms4w/x.shp", "../a.b",
            "roads.shp", "caf\u00e9", "\u00e9t\u00e9", "\u8def", "\U0001f600", "a-b", "a:b", "x_1", ".", "..", ":", ";", "&", "@", "\\", "\\n", "INCLUDE",
            "include", "INCLUDE 'x.map'", "\n", "\r\n", "\t", "\f", "METADATA", "VALIDATION", "CONNECTIONOPTIONS", "VALUES", "POINTS", "PATTERN",
            "PROJECTION", "CONFIG", "SYMBOLSET"]
    return sorted(words) + lits


FIXED_INPUTS = None


def fixed_inputs():
    """family (3): unterminated constructs, every block type at the root, malformed INCLUDE lines, nesting bounds"""
    out = ["", " ", "\n", "#", "# only a comment", "/*", "/* c", "/**/", "*/", '"', "'", "`", '"abc', "'abc", "`abc", "MAP NAME \"x", "MAP NAME 'x\nEND",
           "MAP NAME `x END", "CLASS EXPRESSION /abc END", "CLASS EXPRESSION \\\\abc END", "CLASS EXPRESSION (", "CLASS EXPRESSION ([a] = END",
           "CLASS EXPRESSION {a,b END", "CLASS TEXT [a END", "LAYER DATA %v END", "LAYER DATA %v% END", "[", "]", "(", ")", "{", "}", "END", "END END",
           "MAP", "MAP END END", "MAP MAP END", "MAP LAYER END", "MAP NAME END", "MAP NAME", "NAME 'x'", "'x'", "7", "MAP 7 END", "MAP [a] END",
           "MAP SIZE 1 END", "MAP SIZE 1 2 3 END", "MAP EXTENT 1 2 3 END", "MAP EXTENT 1 2 3 4 5 END", "MAP IMAGECOLOR 1 2 END", "MAP CONFIG END",
           "MAP CONFIG 'a' END", "MAP CONFIG 'a' 'b' 'c' END", "MAP PROJECTION END", "MAP PROJECTION AUTO 'x' END END", "MAP PROJECTION 'a' AUTO END END",
           "FEATURE POINTS 1 END END", "FEATURE POINTS 1 2 3 END END", "STYLE PATTERN 1 END END", "METADATA 'a' END", "METADATA 'a' 'b' 'c' END",
           "SYMBOLSET", "SYMBOLSET END", "SYMBOLSET SYMBOL END", "SYMBOLSET MAP END END", "MAP SYMBOLSET END END", "SYMBOLSET END MAP END",
           "INCLUDE", "INCLUDE ", "include", "INCLUDE\n", "  INCLUDE  # c", "INCLUDE ''", 'INCLUDE ""', "INCLUDE '", "INCLUDE \"", "INCLUDE #", "INCLUDE 'a' 'b'",
           "INCLUDE a b c", "INCLUDE .", "INCLUDE ./", "INCLUDE 'missing.map'", "MAP\nINCLUDE\nEND", "MAP\nINCLUDE missing.map\nEND", "MAP INCLUDE 'x' END",
           "INCLUDE a\x00b", "MAP\nINCLUDE 'x\x00.map'\nEND", "INCLUDE " + "d/" * 3000 + "x.map", "INCLUDE \x00", "INCLUDEX", "includes 'x'", "MAP\n  include_me 'x'\nEND", "LAYER METADATA\ninclude_items 'all'\nEND END", "\ufeffMAP END", "MAP\x00END", "MAP\x0bEND",
           "MAP NAME \"a\"\"b\" END", "MAP NAME 'a''b' END", "MAP NAME \"a\\\" END", "MAP NAME \"a\"i END", "MAP NAME x-y END", "MAP NAME 1x END", "MAP NAME x:y END",
           "CLASS STYLE SYMBOL END END", "CLASS SYMBOL END", "STYLE SYMBOL SYMBOL END END", "LAYER NAME GRID END", "LAYER GRID NAME GRID END END",
           "QUERYMAP STYLE END", "QUERYMAP STYLE NORMAL NORMAL END", "OUTPUTFORMAT IMAGEMODE FEATURE END", "OUTPUTFORMAT IMAGEMODE FEATURE FEATURE END END",
           "CLASS EXPRESSION () END", "CLASS EXPRESSION (()) END", "CLASS EXPRESSION (NOT) END", "CLASS EXPRESSION (AND) END", "CLASS EXPRESSION ([a] = ) END",
           "CLASS EXPRESSION (= 1) END", "CLASS EXPRESSION ([a] 1) END", "CLASS EXPRESSION (f()) END", "CLASS EXPRESSION (f(,)) END", "CLASS EXPRESSION (-) END",
           "CLASS EXPRESSION {} END", "CLASS EXPRESSION {,} END", "CLASS EXPRESSION [] END", "CLASS EXPRESSION // END", "CLASS EXPRESSION / END",
           "CLASS EXPRESSION (true) END", "CLASS EXPRESSION (NULL) END", "CLASS EXPRESSION NOT ([a] = 1) END", "CLASS EXPRESSION ! ([a] = 1) END",
           "CLASS EXPRESSION NOT END"]
    # comments at every kind of place, several on one line, unterminated, alone (the bookkeeping flags read them)
    cm = ["/* a */", "# b", "/* a */ /* a */", "/* a */ # b", "/* a\nb */", "/**/", "#", "/* a */ /* b */ /* c */"]
    for c in cm:
        out += [c, c + "\n", c + "\nMAP\nEND", "MAP " + c + "\nEND", "MAP\n  " + c + "\n  NAME 'x'\nEND", "MAP\n  NAME " + c + "\n 'x'\nEND",
                "MAP\n  NAME 'x' " + c + "\nEND", "MAP\n  NAME 'x'\nEND " + c, "MAP\n  NAME 'x'\n" + c + "\nEND\n" + c + "\n" + c,
                "MAP\n  " + c + "\n  " + c + "\n  LAYER " + c + "\n  " + c + "\n  END\nEND",
                "MAP\n METADATA " + c + "\n 'a' " + c + "\n 'b' " + c + "\n END\nEND", "MAP\n PROJECTION " + c + "\n 'a' " + c + "\n END\nEND",
                "FEATURE POINTS " + c + " 1 " + c + "\n 2 END END", "CLASS EXPRESSION " + c + "\n ([a] = 1) END", "LAYER PROCESSING 'a' " + c + "\nPROCESSING 'b' " + c + "\nEND",
                "MAP CONFIG 'a' " + c + "\n 'b' " + c + "\nEND", "MAP NAME 'x' " + c + " " + c]
    blocks = [t.upper() for t in vocab.OBJ_TYPES] + ["METADATA", "VALIDATION", "CONNECTIONOPTIONS", "VALUES", "PROJECTION", "POINTS", "PATTERN", "CONFIG", "SYMBOLSET"]
    for b in blocks:
        out += [b, b + " END", b.lower() + " end", b + "\nNAME 'x'\nEND", b + " " + b + " END END", b + " END " + b + " END", b + " 'a' 'b' END",
                b + " 1 2 END", "MAP " + b + " END END", b + " END END", b + " # c\nEND"]
    for n in (1, 2, 10, 50, 100):
        out.append("CLASS EXPRESSION " + "(" * n + "[a] = 1" + ")" * n + " END")
        out.append("CLASS EXPRESSION (" + " AND ".join(["[a] = 1"] * n) + ") END")
        out.append("CLASS EXPRESSION (" + " + ".join(["[a]"] * n) + " > 1) END")
        out.append("CLASS EXPRESSION (" + "NOT " * n + "[a] = 1) END")
        out.append("CLASS EXPRESSION (" + "-" * n + "[a] > 1) END")
        # nesting that builds several tree levels per pair of parentheses (sum, negation, group; function call, group)
        out.append("CLASS EXPRESSION (" + "1 + -(" * n + "1" + ")" * n + " > 0) END")
        out.append("CLASS EXPRESSION (" + "round((" * n + "[a]" + ",1))" * n + " > 0) END")
        out.append("CLASS EXPRESSION (" + "NOT (" * n + "[a] = 1" + ")" * n + ") END")
        out.append("LAYER FILTER (" + "([a] = 1 AND " * n + "[b] = 2" + ")" * n + ") END")
    for n in (1, 5, 20, 50):
        out.append("CLASS " * n + "END " * n)
        out.append("MAP " + "LAYER CLASS STYLE " * (n // 3) + "END " * (3 * (n // 3)) + "END")
    return out


def classify(text, expand=True, public=False, comments=False, position=False):
    """-> (outcome label, discrepancy message or None)"""
    import lark

    W = env.Workers.get()
    enter_empty_cwd()
    try:
        if public:
            import mappyfile

            d = mappyfile.loads(text, expand_includes=expand, include_comments=comments, include_position=position)
        else:
            d = W.loads(text, expand=expand, comments=comments, position=position)
    except lark.exceptions.LarkError as e:
        if isinstance(e, lark.exceptions.UnexpectedInput):
            line, col = getattr(e, "line", None), getattr(e, "column", None)
            nlines = text.count("\n") + 1
            if isinstance(e, lark.exceptions.UnexpectedEOF) or getattr(getattr(e, "token", None), "type", "") == "$END":
                ok = (isinstance(line, int) and isinstance(col, int)) or True  # end of input: position may be a sentinel
                if not (line is None or isinstance(line, int)):
                    return "reject:" + type(e).__name__, f"{type(e).__name__} with non-integer line {line!r}"
            else:
                if not (isinstance(line, int) and isinstance(col, int) and line >= 1 and col >= 1 and line <= nlines):
                    return "reject:" + type(e).__name__, f"{type(e).__name__} carries line={line!r} column={col!r} for a text of {nlines} lines"
                ll = text.split("\n")[line - 1]
                if col > len(ll) + 2:
                    return "reject:" + type(e).__name__, f"{type(e).__name__} column {col} beyond line {line} of length {len(ll)}"
            return "reject:" + type(e).__name__ + (":last_line" if (line or 0) >= nlines else ":middle"), None
        return "reject:" + type(e).__name__, None
    except OSError as e:
        if expand and re.search(r"(?im)^\s*include", text):
            return "oserror_include", None
        return "exc:OSError", f"OSError escaped although no INCLUDE line: {e!s:.80}"
    except RecursionError as e:
        return "exc:RecursionError", "RecursionError escaped within the stated nesting bounds"
    except Exception as e:
        import traceback

        tb = traceback.extract_tb(e.__traceback__)
        frames = [f for f in tb if "/mappyfile/" in f.filename]
        where = f"{os.path.basename(frames[-1].filename)}:{frames[-1].name}" if frames else "?"
        return f"exc:{type(e).__name__}:{where}", f"{type(e).__name__} escaped from loads ({where}): {e!s:.100}"
    if isinstance(d, dict) or (isinstance(d, list) and all(isinstance(x, dict) for x in d)):
        return "accepted", None
    return "bad_return", f"loads returned {type(d).__name__}: {d!r:.80}"


def within_bounds(text):
    """the stated bounds: expression nesting / chains <= 100, block nesting <= 50"""
    depth = mx = 0
    for c in text:
        if c == "(":
            depth += 1
            mx = max(mx, depth)
        elif c == ")":
            depth = max(0, depth - 1)
    if mx > 100:
        return False
    if len(re.findall(r"(?i)\b(and|or|not)\b|&&|\|\||[-+*/^!]", text)) > 100:
        return False
    opens = len(re.findall(r"(?i)\b(" + "|".join(vocab.OBJ_TYPES) + r")\b", text))
    return opens <= 50


def mutate(toks, ch, others, soup):
    toks = list(toks)
    kinds = []
    for _ in range(ch.int(1, 4)):
        if not toks:
            break
        m = ch.choice(["delete", "duplicate", "swap", "truncate", "splice", "replace", "insert", "breakquote", "truncate_char"])
        i = ch.int(0, len(toks) - 1)
        kinds.append(m)
        if m == "delete":
            del toks[i]
        elif m == "duplicate":
            toks.insert(i, toks[i])
        elif m == "swap" and len(toks) > 1:
            j = ch.int(0, len(toks) - 1)
            toks[i], toks[j] = toks[j], toks[i]
        elif m == "truncate":
            toks = toks[:i]
        elif m == "splice":
            o = ch.choice(others)
            a = ch.int(0, max(0, len(o) - 1))
            toks[i:i] = o[a:a + ch.int(1, 12)]
        elif m == "replace":
            toks[i] = ch.choice(soup)
        elif m == "insert":
            toks.insert(i, ch.choice(soup))
            toks.insert(i, " ")
        elif m == "breakquote":
            t = toks[i]
            if t[:1] in "\"'" and len(t) >= 2:
                toks[i] = t[:-1] if ch.bool() else t[1:]
        elif m == "truncate_char":
            s = "".join(toks)
            s = s[: ch.int(0, len(s))]
            toks = split_tokens(s)
    return "".join(toks), kinds


def search(acc: Acc, tier, shard, nshards):
    n = TIERS[tier]["examples"] // nshards
    soup = soup_vocab()
    small = sorted(corpus.files(), key=os.path.getsize)[:160]
    bases = []
    for p in small:
        try:
            t = corpus.read(p)
        except Exception:
            continue
        if len(t) < 6000:
            bases.append(split_tokens(t))
    prof = model.Profile(max_depth=3, max_items=5)
    counter = {"i": 0}

    def body(data):
        ch = model.Ch(data.draw)
        counter["i"] += 1
        fam = ch.choice(["mutate_doc", "mutate_doc", "mutate_corpus", "soup", "soup"])
        kinds = []
        if fam == "mutate_doc":
            doc = model.Gen(ch, prof).document()
            surf = render.Surface(ch) if ch.bool() else None
            toks = split_tokens(render.render(doc, surf).text)
            text, kinds = mutate(toks, ch, bases, soup)
        elif fam == "mutate_corpus":
            text, kinds = mutate(ch.choice(bases), ch, bases, soup)
        else:
            k = ch.int(1, 60)
            sep = ch.choice([" ", " ", "\n", ""])
            text = sep.join(ch.choice(soup) for _ in range(k))
        if not within_bounds(text):
            acc.excl("out_of_stated_nesting_bounds")
            return []
        expand = not ch.chance(1, 5)
        comments, position = ch.chance(1, 3), ch.chance(1, 4)   # "every input string": under the bookkeeping flags too
        if comments:
            acc.cls("flag:include_comments")
        label, msg = classify(text, expand=expand, public=ch.chance(1, 50), comments=comments, position=position)
        nt = label.endswith(":middle") or (label == "accepted") or label.startswith("reject:Visit") or label.startswith("reject:UnexpectedCharacters")
        acc.case(text, nt, sample={"family": fam, "mutations": kinds, "outcome": label, "text": text[:300]} if 20 < len(text) < 300 else None)
        acc.cls("family:" + fam)
        acc.cls("outcome:" + label.split(":middle")[0].split(":last_line")[0])
        for k_ in kinds:
            acc.cls("mutation:" + k_)
        if msg:
            return [Discrepancy(label, msg, {"text": text, "expand": expand, "comments": comments, "position": position})]
        return []

    hyp_search(acc, ID, "inputs", shard, n, body, tier)
    if tier == "thorough":
        atheris_campaign(acc, shard, TIERS[tier]["atheris_runs"])


def atheris_campaign(acc, shard, runs):
    """One libFuzzer process per shard: own (fresh, empty) corpus directory, -seed derived from VERIF_SEED.
    Reproducibility of a libFuzzer campaign is approximate; the saved input is the reproducible unit."""
    import glob
    import json
    import shutil

    script = os.path.join(env.VERIF, "mfv", "fuzz_c11.py")
    if not os.path.isdir(os.path.join(env.VERIF, ".deps", "atheris")):
        acc.notes.append("atheris is not installed (/verif/.deps): thorough tier ran with Hypothesis only")
        acc.cls("atheris:unavailable")
        return
    work = tempfile.mkdtemp(prefix="mfv_c11_fz_")
    try:
        findings = os.path.join(work, "findings")
        corp = os.path.join(work, "corpus")
        os.makedirs(corp)
        seed = env.shard_seed(ID + "/atheris", shard) % (2 ** 31 - 2) + 1
        e = dict(os.environ, MFV_REPO=env.REPO)
        r = subprocess.run([script, findings, corp, f"-runs={runs}", f"-seed={seed}", "-max_len=600", "-timeout=60"],
                           cwd=work, env=e, capture_output=True, text=True, timeout=3600)
        st_ = {}
        try:
            with open(os.path.join(findings, "stats.json")) as f:
                st_ = json.load(f)
        except Exception:
            pass
        acc.evaluations += st_.get("n", 0)
        acc.cls("atheris:executions", st_.get("n", 0))
        acc.cls("atheris:accepted", st_.get("accepted", 0))
        acc.cls("atheris:corpus_entries", len(os.listdir(corp)))
        acc.notes.append(f"atheris shard {shard}: {st_} exit={r.returncode}")
        for fn in sorted(glob.glob(os.path.join(findings, "finding_*.json"))):
            with open(fn) as f:
                v = json.load(f)
            acc.violations.append({**v, "search": "atheris", "shard": shard, "round": 0, "seed": env.verif_seed(), "tier": "thorough"})
        if r.returncode != 0 and not glob.glob(os.path.join(findings, "finding_*.json")):
            tail = (r.stderr or "")[-400:]
            # libFuzzer reports an uncaught exception / timeout itself: keep the crashing input
            crash = sorted(glob.glob(os.path.join(work, "crash-*")) + glob.glob(os.path.join(work, "timeout-*")))
            acc.violations.append({"bucket": "atheris:crash_or_timeout", "message": f"libFuzzer stopped abnormally: {tail}",
                                   "case": {"text": "", "libfuzzer_artifacts": [os.path.basename(c) for c in crash]},
                                   "search": "atheris", "shard": shard, "round": 0, "seed": env.verif_seed(), "tier": "thorough"})
    finally:
        shutil.rmtree(work, ignore_errors=True)


def pairs_part(acc: Acc, tier, shard, nshards):
    """Exhaustive: every ordered pair of vocabulary tokens, alone and as the first two tokens inside the block that
    can hold the most keywords (MAP ... END / STYLE ... END), through loads with default arguments."""
    voc = [t for t in soup_vocab() if "\n" not in t and t.strip()]
    if tier == "quick":
        # the keyword / block / literal part of the vocabulary x everything (about 10^5 pairs)
        firsts = [t for t in voc if t.isupper() and t.isalpha()] + ["END", "SYMBOL", "STYLE", "GRID", "NAME", "(", "[", "{", "/", '"', "`", "%", "#", "/*"]
        firsts = list(dict.fromkeys(firsts))
    else:
        firsts = voc
    i = 0
    for a in firsts:
        i += 1
        if i % nshards != shard:
            continue
        if acc.over_budget():
            return
        for b in voc:
            for text in (a + " " + b, "MAP " + a + " " + b + " END", "STYLE\n" + a + "\n" + b):
                label, msg = classify(text, expand=False)
                acc.evaluations += 1
                acc.exhaustive_cases += 1
                if msg and not any(v["bucket"] == label for v in acc.violations):
                    acc.violations.append({"bucket": label, "message": msg + f" for input {text!r:.120}", "case": {"text": text, "expand": False},
                                           "search": "pairs", "shard": shard, "round": 0, "seed": env.verif_seed(), "tier": tier})
        acc.nontrivial.add(env.fp(["pairs_first", a]))
        acc.cls("pairs:first_tokens")
    if len(acc.samples) < 3:
        acc.samples.append({"family": "token pairs", "example": "MAP SYMBOL GRID END", "vocabulary": len(voc)})


# ------------------------------------------------------------------ fixed family + timing

def time_families():
    layer = "LAYER\n NAME 'x'\n TYPE POLYGON\n DATA 'a.shp'\n CLASS\n  NAME 'c'\n  EXPRESSION ([a] > 1 AND [b] < 2)\n  STYLE\n   COLOR 1 2 3\n   WIDTH 2.5\n  END\n END\nEND\n"
    return [
        ("layer_blocks", lambda n: "MAP\n" + layer * (n // len(layer)) + "END\n"),
        ("keyword_run", lambda n: "MAP\n" + "NAME 'abc'\n" * (n // 11) + "END\n"),
        ("comment_run", lambda n: "MAP\n" + "# a comment line with some text\n" * (n // 32) + "END\n"),
        ("string_run", lambda n: "LAYER TYPE POINT\n" + "PROCESSING 'BANDS=1,2,3'\n" * (n // 25) + "END\n"),
        ("metadata_run", lambda n: "WEB METADATA\n" + "'wms_title' 'value value value'\n" * (n // 31) + "END END\n"),
        ("points_run", lambda n: "FEATURE POINTS\n" + "1.5 2.5\n" * (n // 8) + "END END\n"),
        ("long_string", lambda n: "MAP NAME '" + "x" * n + "' END"),
        ("c_comments", lambda n: "MAP\n" + "/* c */ " * (n // 8) + "END\n"),
        ("many_roots", lambda n: "CLASS NAME 'x' END\n" * (n // 19)),
        # rejected inputs whose parser stack keeps growing (never closed): still linear work
        ("unclosed_blocks", lambda n: "LAYER\n" * (n // 6)),
        ("unclosed_blocks_with_body", lambda n: "LAYER NAME 'x'\n" * (n // 15)),
        ("open_braces", lambda n: "CLASS EXPRESSION " + "{" * n),
    ]


def measure(parser_loads, text, reps=3):
    best = None
    import lark

    for _ in range(reps):
        t0 = time.process_time()
        try:
            parser_loads(text)
        except lark.exceptions.LarkError:
            pass  # rejected inputs are timed as well
        dt = time.process_time() - t0
        best = dt if best is None else min(best, dt)
    return best


def fixed_part(acc: Acc, tier, shard, nshards):
    inputs = fixed_inputs()
    for i, text in enumerate(inputs):
        if i % nshards != shard:
            continue
        for expand, com in ((True, False), (False, False), (True, True)):
            label, msg = classify(text, expand=expand, comments=com, position=com)
            acc.case([text, expand, com], True, sample={"family": "fixed", "outcome": label, "text": text[:200]} if i % 40 == 0 else None)
            acc.cls("family:fixed")
            acc.cls("outcome:" + label.split(":middle")[0].split(":last_line")[0])
            if msg and not any(v["bucket"] == label for v in acc.violations):
                acc.violations.append({"bucket": label, "message": msg + f" for input {text!r:.120}", "case": {"text": text, "expand": expand, "comments": com, "position": com},
                                       "search": "fixed", "shard": shard, "round": 0, "seed": env.verif_seed(), "tier": tier})
    # linear-time clause: run by shard 0 only, after a pause-free measurement on CPU time
    if shard == 0:
        timing(acc, tier)


def timing(acc, tier):
    W = env.Workers.get()
    fams = time_families()[: TIERS[tier]["time_families"]]
    subset = TIERS[tier].get("quick_time_subset")
    if subset:
        fams = [f for f in fams if f[0] in subset]
    for comments in ((False,) if tier == "quick" else (False, True)):
        def loads(text):
            return W.loads(text, comments=comments)

        for name, make in fams:
            n = 12000
            # choose n so that the smallest run takes >= 50 ms
            while n <= 400000:
                t = measure(loads, make(n), reps=1)
                if t >= 0.05:
                    break
                n *= 2
            if n > 400000:
                acc.notes.append(f"timing {name}: too fast to measure (inconclusive)")
                acc.cls("timing:inconclusive")
                continue
            sizes = [n, 2 * n, 4 * n, 8 * n]
            ts = [measure(loads, make(s)) for s in sizes]
            lens = [len(make(s)) for s in sizes]
            e_all = math.log(ts[3] / ts[0]) / math.log(lens[3] / lens[0])
            e_last = math.log(ts[3] / ts[2]) / math.log(lens[3] / lens[2])
            acc.evaluations += 4
            acc.nontrivial.add(env.fp(["timing", name, comments]))
            acc.cls("timing:measured")
            acc.notes.append(f"timing {name} comments={comments}: chars={lens} cpu_s={[round(x, 3) for x in ts]} exponent overall={e_all:.2f} last={e_last:.2f}")
            if e_all > 1.6 and e_last > 1.6 and ts[3] > 2.0:
                acc.violations.append({"bucket": f"superlinear:{name}", "message": f"loads time grows with exponent {e_all:.2f} (last doubling {e_last:.2f}); {lens[3]} chars took {ts[3]:.1f}s CPU",
                                       "case": {"timing_family": name, "comments": comments, "n": n}, "search": "timing", "shard": 0, "round": 0,
                                       "seed": env.verif_seed(), "tier": tier})


# ------------------------------------------------------------------ short inputs that must not take long

CPU_LIMIT_S = 5   # a few hundred characters load or fail in milliseconds; 5 s of CPU is > 1000 times that

BT_CONTEXTS = ["", "MAP NAME ", "CLASS EXPRESSION ", "LAYER FILTER (", "STYLE COLOR "]
BT_OPENERS = ['"', "'", "/*", "[", "{", "/", "(", "`", "#", '"#', "'#", "(\"", "('", "/*/", "'[", '"/']
BT_UNITS = ["\\x", "\\\\", "\\'", '\\"', "*", "a", " ", "\\ ", "\\\n", "x\\", "(", "[", "{", "/", "%", "'x", '"x', "*/*", "\n", "\\d\\", "ab", "\t"]
BT_TAILS = ["", "\n", " END", "x"]


def guarded_cpu(text, comments=False):
    """loads(text) in a forked child whose CPU time the kernel limits: -> None if it finished (parsed or rejected),
    else a message. The limit is on CPU time, so a loaded machine cannot turn a slow run into a violation."""
    import resource
    import signal

    W = env.Workers.get()
    W.parser(comments, False)   # built before the fork
    pid = os.fork()
    if pid == 0:
        try:
            resource.setrlimit(resource.RLIMIT_CPU, (CPU_LIMIT_S, CPU_LIMIT_S + 1))
            try:
                W.loads(text, comments=comments, expand=False)
            except BaseException:
                pass
        finally:
            os._exit(0)
    _, status = os.waitpid(pid, 0)
    if os.WIFSIGNALED(status) and os.WTERMSIG(status) in (signal.SIGXCPU, signal.SIGKILL):
        return f"loads used more than {CPU_LIMIT_S} s of CPU on an input of {len(text)} characters"
    return None


def backtrack_inputs(tier):
    ks = (24, 48) if tier == "quick" else (20, 32, 64, 120)
    for ctx in BT_CONTEXTS:
        for op in BT_OPENERS:
            for u in BT_UNITS:
                for k in ks:
                    yield ctx + op + u * k + BT_TAILS[(len(ctx) + len(op) + len(u) + k) % len(BT_TAILS)]
    if tier != "quick":
        for op in BT_OPENERS:
            for u in BT_UNITS:
                for v in BT_UNITS:
                    if u != v:
                        yield "MAP NAME " + op + (u + v) * 30


def backtrack_part(acc: Acc, tier, shard, nshards):
    """Unterminated strings / regexes / comments / brackets filled with repeated units (escapes, quotes, stars):
    a few hundred characters that a backtracking terminal could spend exponential time on. Each is loaded in a
    forked child under a kernel CPU limit."""
    for i, text in enumerate(backtrack_inputs(tier)):
        if i % nshards != shard:
            continue
        if acc.over_budget():
            return
        msg = guarded_cpu(text, comments=(i // nshards) % 5 == 0)
        acc.evaluations += 1
        acc.exhaustive_cases += 1
        acc.nontrivial.add(env.fp(["bt", text]))
        acc.cls("family:short_repetitive_unterminated")
        if i % 997 == 0 and len(acc.samples) < 2:
            acc.samples.append({"family": "short repetitive unterminated", "text": text[:120]})
        if msg:
            b = "not_prompt"
            if not any(v["bucket"] == b for v in acc.violations):
                acc.violations.append({"bucket": b, "message": msg + f": {text!r:.100}", "case": {"guarded": text}, "search": "backtrack", "shard": shard,
                                       "round": 0, "seed": env.verif_seed(), "tier": tier})
            if sum(1 for v in acc.violations) >= 1:
                return   # every further input of the family would cost the full limit


def replay(case):
    if "guarded" in case:
        msg = guarded_cpu(case["guarded"])
        return [Discrepancy("not_prompt", msg, case)] if msg else []
    if "timing_family" in case:
        acc = Acc()
        timing(acc, "thorough")
        return [Discrepancy(v["bucket"], v["message"], v["case"]) for v in acc.violations if v["case"]["timing_family"] == case["timing_family"]]
    label, msg = classify(case["text"], expand=case.get("expand", True), comments=case.get("comments", False), position=case.get("position", False))
    return [Discrepancy(label, msg, case)] if msg else []
