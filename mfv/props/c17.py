"""C17 - Mapfile dicts behave as case-insensitive, insertion-ordered dicts.

Reference model: a plain OrderedDict keyed by lower-cased keys plus the documented
default rule.  Three engines: (1) exhaustive breadth-first exploration of every
reachable state over a small alphabet, every operation applied in every state;
(2) exhaustive operation sequences from the empty dictionary up to a length bound;
(3) a Hypothesis RuleBasedStateMachine over a larger alphabet and nested values."""
from __future__ import annotations

import copy
import itertools
import pickle
from collections import OrderedDict

from .. import env
from ..harness import Acc, Discrepancy

ID = "C17"
RULE = ("(1) breadth-first over all reachable states for keys {a,A,b,B,layers,Layers} and values {1,'x',[1,[2],{'j':[3]}],{'k':[1,[2]]}} with and "
        "without default factory: in every distinct state every operation (item get/set/del, in, has_key, get, pop, "
        "setdefault, update by mapping/pairs/kwargs, construction, copy, deepcopy, pickle, keys/items/len/==) is applied to "
        "the real dict and to the reference model (OrderedDict keyed by lower-cased keys + default rule) and result-or-"
        "exception, items(), class and default factory are compared; (2) all operation sequences from the empty dict up to "
        "length 2 (quick) / 3 (thorough); (3) Hypothesis state machine, larger alphabet, up to 50 steps. Non-trivial: the "
        "history touches one key under two spellings, or re-inserts after pop/del, or mutates after a copy. Distinct = "
        "(state, operation) / sequence.")
ASSUMPTIONS = [
    "keys are strings (the property speaks of string keys)",
    "construction uses the documented signature: first positional argument is the default factory (or None)",
]
TIERS = {
    "quick": {"seq_len": 2, "loaded": 320, "machine_runs": 400, "machine_steps": 30, "budget_s": 100, "exhaustive": True},
    "thorough": {"seq_len": 3, "loaded": 8000, "machine_runs": 20000, "machine_steps": 50, "budget_s": 1500, "exhaustive": True},
}
PARTS = ["bfs", "sequences", "machine", "loaded"]

KEYS = ["a", "A", "b", "B", "layers", "Layers"]
VALUES = [1, "x", [1, [2], {"j": [3]}], {"k": [1, [2]]}]   # opaque to the dict operations; nested so that copies can be told apart in depth
PROBE_KEYS = ["Classes", "styles", "SYMBOLS", "labels", "outputformats", "features", "scaletokens", "composites", "joins", "layer", "style"]
OBJECT_LIST_KEYS = {"layers", "classes", "styles", "symbols", "labels", "outputformats", "features", "scaletokens",
                    "composites", "joins"}


def CIOD():
    from mappyfile.ordereddict import CaseInsensitiveOrderedDict

    return CaseInsensitiveOrderedDict


class Model:
    """Reference: OrderedDict keyed by lower-cased keys + the documented default rule."""

    def __init__(self, factory, items=()):
        self.factory = factory  # bool
        self.d = OrderedDict()
        for k, v in items:
            self.d[k.lower()] = v

    def clone(self):
        m = Model(self.factory)
        m.d = copy.deepcopy(self.d)
        return m

    def items(self):
        return list(self.d.items())


def make_real(model: Model):
    C = CIOD()
    d = C(C) if model.factory else C()
    for k, v in model.d.items():
        OrderedDict.__setitem__(d, k, copy.deepcopy(v))  # state reconstruction bypasses the code under test
    return d


def norm(x):
    """Comparable form: type names of containers matter only at top level."""
    if isinstance(x, dict):
        return ("dict", [(k, norm(v)) for k, v in x.items()])
    if isinstance(x, (list, tuple)):
        return ("list", [norm(v) for v in x])
    return (type(x).__name__, x)


def containers(x, out=None, keep=None):
    """ids of every mutable container reachable from x (dicts read without triggering the default rule)."""
    if out is None:
        out = set()
    if isinstance(x, dict):
        out.add(id(x))
        for v in dict.values(x):
            containers(v, out)
    elif isinstance(x, (list, set, bytearray)):
        out.add(id(x))
        if not isinstance(x, bytearray):
            for v in x:
                containers(v, out)
    elif isinstance(x, tuple):
        for v in x:
            containers(v, out)
    return out


def same_state(real, model: Model):
    C = CIOD()
    errs = []
    if type(real) is not C:
        errs.append(f"class is {type(real).__name__}")
    if norm(OrderedDict(OrderedDict.items(real))) != norm(model.d):
        errs.append(f"items differ: real {list(OrderedDict.items(real))!r} vs model {model.items()!r}")
    if (real.default_factory is not None) != model.factory:
        errs.append(f"default_factory {'lost' if model.factory else 'appeared'}")
    if list(real.keys()) != list(model.d.keys()):
        errs.append(f"keys() {list(real.keys())} vs {list(model.d.keys())}")
    if len(real) != len(model.d):
        errs.append("len differs")
    return errs


# ---- operations: (name, args) -> applied to real and model; returns ('ok', value) or ('exc', type name)

def ops_alphabet(keys=KEYS, values=VALUES):
    ops = []
    for k in keys:
        ops += [("getitem", k), ("delitem", k), ("contains", k), ("has_key", k), ("get", k), ("get_default", k),
                ("pop", k), ("pop_default", k), ("setdefault", k)]
        for v in values:
            ops += [("setitem", k, v), ("setdefault_v", k, v)]
    # every object-list key of the documented default rule (and one near miss that is not a list key)
    for lk in PROBE_KEYS:
        ops += [("getitem", lk)]
    ops += [("update_map", (("A", 2), ("c", 3))), ("update_map", (("b", 5), ("B", 6))), ("update_pairs", (("Layers", (7,)), ("a", 8))),
            ("update_kwargs", (("A", 9),)), ("update_both", (("a", 1),), (("A", 2),)), ("update_empty",),
            ("construct_map", (("A", 1), ("a", 2), ("B", 3))), ("construct_pairs", (("B", 1), ("a", 2), ("b", 3))),
            ("construct_kwargs", (("A", 1), ("b", 2))),
            ("copy",), ("copy_method",), ("deepcopy",), ("pickle",), ("keys",), ("items",), ("len",), ("eq_model",),
            ("copy_then_mutate",), ("deepcopy_then_mutate",)]
    return ops


def _val(v):
    return copy.deepcopy(list(v) if isinstance(v, tuple) else v)


def apply_model(m: Model, op):
    name = op[0]
    d = m.d
    if name == "getitem":
        k = op[1].lower()
        if k in d:
            return ("ok", d[k])
        if not m.factory:
            return ("exc", "KeyError")
        d[k] = [] if k in OBJECT_LIST_KEYS else OrderedDict()
        return ("ok", d[k])
    if name == "setitem":
        d[op[1].lower()] = _val(op[2])
        return ("ok", None)
    if name == "delitem":
        k = op[1].lower()
        if k not in d:
            return ("exc", "KeyError")
        del d[k]
        return ("ok", None)
    if name in ("contains", "has_key"):
        return ("ok", op[1].lower() in d)
    if name == "get":
        return ("ok", d.get(op[1].lower()))
    if name == "get_default":
        return ("ok", d.get(op[1].lower(), "dflt"))
    if name == "pop":
        k = op[1].lower()
        if k not in d:
            return ("exc", "KeyError")
        return ("ok", d.pop(k))
    if name == "pop_default":
        return ("ok", d.pop(op[1].lower(), "dflt"))
    if name == "setdefault":
        return ("ok", d.setdefault(op[1].lower()))
    if name == "setdefault_v":
        return ("ok", d.setdefault(op[1].lower(), _val(op[2])))
    if name in ("update_map", "update_pairs", "update_kwargs"):
        pairs = op[1]
        if name != "update_pairs":
            pairs = list(OrderedDict((k, v) for k, v in pairs).items())  # the mapping actually passed
        for k, v in pairs:
            d[k.lower()] = _val(v)
        return ("ok", None)
    if name == "update_both":
        for k, v in op[1] + op[2]:
            d[k.lower()] = _val(v)
        return ("ok", None)
    if name == "update_empty":
        return ("ok", None)
    if name in ("construct_map", "construct_pairs", "construct_kwargs"):
        n = OrderedDict()
        pairs = op[1]
        if name != "construct_pairs":
            pairs = list(OrderedDict((k, v) for k, v in pairs).items())
        for k, v in pairs:
            n[k.lower()] = _val(v)
        return ("ok", ("newdict", list(n.items())))
    if name in ("copy", "copy_method", "deepcopy", "pickle"):
        return ("ok", ("newdict", m.items()))
    if name == "keys":
        return ("ok", list(d.keys()))
    if name == "items":
        return ("ok", list(d.items()))
    if name == "len":
        return ("ok", len(d))
    if name == "eq_model":
        return ("ok", True)
    if name in ("copy_then_mutate", "deepcopy_then_mutate"):
        return ("ok", None)
    raise ValueError(name)


def apply_real(real, op, model_before: Model):
    C = CIOD()
    name = op[0]
    try:
        if name == "getitem":
            return ("ok", real[op[1]])
        if name == "setitem":
            real[op[1]] = _val(op[2])
            return ("ok", None)
        if name == "delitem":
            del real[op[1]]
            return ("ok", None)
        if name == "contains":
            return ("ok", op[1] in real)
        if name == "has_key":
            return ("ok", real.has_key(op[1]))
        if name == "get":
            return ("ok", real.get(op[1]))
        if name == "get_default":
            return ("ok", real.get(op[1], "dflt"))
        if name == "pop":
            return ("ok", real.pop(op[1]))
        if name == "pop_default":
            return ("ok", real.pop(op[1], "dflt"))
        if name == "setdefault":
            return ("ok", real.setdefault(op[1]))
        if name == "setdefault_v":
            return ("ok", real.setdefault(op[1], _val(op[2])))
        if name == "update_map":
            real.update(OrderedDict((k, _val(v)) for k, v in op[1]))
            return ("ok", None)
        if name == "update_pairs":
            real.update([(k, _val(v)) for k, v in op[1]])
            return ("ok", None)
        if name == "update_kwargs":
            real.update(**{k: _val(v) for k, v in op[1]})
            return ("ok", None)
        if name == "update_both":
            real.update(OrderedDict((k, _val(v)) for k, v in op[1]), **{k: _val(v) for k, v in op[2]})
            return ("ok", None)
        if name == "update_empty":
            real.update()
            return ("ok", None)
        f = C if model_before.factory else None
        if name == "construct_map":
            n = C(f, OrderedDict((k, _val(v)) for k, v in op[1]))
            return ("ok", ("newdict", n))
        if name == "construct_pairs":
            n = C(f, [(k, _val(v)) for k, v in op[1]])
            return ("ok", ("newdict", n))
        if name == "construct_kwargs":
            n = C(f, **{k: _val(v) for k, v in op[1]})
            return ("ok", ("newdict", n))
        if name == "copy":
            return ("ok", ("newdict", copy.copy(real)))
        if name == "copy_method":
            return ("ok", ("newdict", real.copy()))
        if name == "deepcopy":
            return ("ok", ("newdict", copy.deepcopy(real)))
        if name == "pickle":
            return ("ok", ("newdict", pickle.loads(pickle.dumps(real))))
        if name == "keys":
            return ("ok", list(real.keys()))
        if name == "items":
            return ("ok", list(real.items()))
        if name == "len":
            return ("ok", len(real))
        if name == "eq_model":
            return ("ok", real == make_real(model_before) and make_real(model_before) == real)
        if name in ("copy_then_mutate", "deepcopy_then_mutate"):
            c = copy.copy(real) if name.startswith("copy") else copy.deepcopy(real)
            before = norm(OrderedDict(OrderedDict.items(real)))
            c["ZZ"] = 1            # top-level mutation of the copy never shows in the original
            for v in OrderedDict.values(c):
                if name.startswith("deepcopy"):
                    if isinstance(v, list):
                        v.append("mut")
                    elif isinstance(v, dict):
                        v["mut"] = 1
            after = norm(OrderedDict(OrderedDict.items(real)))
            if before != after:
                return ("ok", "ORIGINAL CHANGED THROUGH ITS COPY")
            if name.startswith("deepcopy"):
                shared = containers(real) & containers(copy.deepcopy(real))
                if shared:
                    return ("ok", "DEEPCOPY SHARES %d MUTABLE CONTAINER(S) WITH THE ORIGINAL" % len(shared))
            # the copy behaves like the original under the next operation (case folding, defaults)
            if "zz" not in c or c["zz"] != 1:
                return ("ok", "copy lost case-insensitive lookup")
            if model_before.factory:
                probe = next((k for k in sorted(OBJECT_LIST_KEYS) if k not in c), None)
                if probe is not None and (c[probe.capitalize()] != [] or probe not in c):
                    return ("ok", "copy lost the default rule")
            else:
                try:
                    c["nope"]
                    return ("ok", "copy gained a default factory")
                except KeyError:
                    pass
            return ("ok", None)
    except KeyError:
        return ("exc", "KeyError")
    except Exception as e:  # anything else is itself a discrepancy
        return ("exc", type(e).__name__ + ":" + str(e)[:60])
    raise ValueError(name)


def compare_result(rr, mr, model_before):
    if rr[0] != mr[0]:
        return f"result kind differs: real {rr!r:.120} vs model {mr!r:.120}"
    if rr[0] == "exc":
        return None if rr[1] == mr[1] else f"exception differs: {rr[1]} vs {mr[1]}"
    rv, mv = rr[1], mr[1]
    if isinstance(mv, tuple) and mv and mv[0] == "newdict":
        if not (isinstance(rv, tuple) and rv[0] == "newdict"):
            return f"expected a new dict, got {rv!r:.80}"
        n = rv[1]
        m2 = Model(model_before.factory, mv[1])
        errs = same_state(n, m2)
        return ("new dict: " + "; ".join(errs)) if errs else None
    if norm(rv) != norm(mv):
        return f"result differs: real {rv!r:.100} vs model {mv!r:.100}"
    return None


def step(real, model, op):
    """Apply op to both; -> message or None."""
    before = model.clone()
    rr = apply_real(real, op, before)
    mr = apply_model(model, op)
    msg = compare_result(rr, mr, before)
    if msg:
        return msg
    errs = same_state(real, model)
    if errs:
        return "state after operation: " + "; ".join(errs)
    return None


def opname(op):
    return op[0]


def nontrivial_seq(seq):
    seen = {}
    for op in seq:
        if len(op) > 1 and isinstance(op[1], str):
            seen.setdefault(op[1].lower(), set()).add(op[1])
    two_spellings = any(len(v) > 1 for v in seen.values())
    names = [o[0] for o in seq]
    reinserts = any(n in ("pop", "pop_default", "delitem") for n in names[:-1]) and any(n in ("setitem", "setdefault_v", "getitem") for n in names[1:])
    return two_spellings or reinserts or any("mutate" in n for n in names)


def freeze(model: Model):
    return (model.factory, repr(norm(model.d)))


def bfs(acc: Acc, tier, shard, nshards):
    """Every operation in every reachable state (bounded: at most 3 distinct lower-cased keys + the update keys)."""
    if shard != 0:
        return
    ops = ops_alphabet()
    seen = {}
    frontier = []
    for factory in (False, True):
        m = Model(factory)
        seen[freeze(m)] = m
        frontier.append(m)
    max_keys = 3
    n_states = 0
    while frontier:
        nxt = []
        for m in frontier:
            n_states += 1
            for op in ops:
                real = make_real(m)
                mm = m.clone()
                msg = step(real, mm, op)
                acc.evaluations += 1
                acc.exhaustive_cases += 1
                acc.cls("bfs:" + opname(op))
                nt = len(m.d) > 0
                if nt:
                    acc.nontrivial.add(env.fp([freeze(m), op]))
                if msg:
                    case = {"state": m.items(), "factory": m.factory, "ops": [list(op)]}
                    acc.violations.append({"bucket": f"{opname(op)}:{'factory' if m.factory else 'nofactory'}:{msg[:30]}",
                                           "message": f"in state {m.items()!r} (factory={m.factory}) {op!r}: {msg}", "case": case,
                                           "search": "bfs", "shard": 0, "round": 0, "seed": env.verif_seed(), "tier": tier})
                    continue
                if len(mm.d) <= max_keys and not (op[0] == "getitem" and op[1] in PROBE_KEYS):
                    # (the extra list-key reads are probes: checked in every state, not used to grow the state space)
                    f = freeze(mm)
                    if f not in seen:
                        seen[f] = mm
                        nxt.append(mm)
        frontier = nxt
        if len(acc.violations) > 40:
            break
    acc.cls("bfs_states", n_states)
    acc.notes.append(f"bfs explored {n_states} distinct states x {len(ops)} operations")
    if len(acc.samples) < 2:
        acc.samples.append({"bfs_state_example": [list(map(repr, kv)) for kv in list(seen.values())[-1].items()], "operations": len(ops)})
    _dedupe(acc)


def _dedupe(acc):
    by = {}
    for v in acc.violations:
        by.setdefault(v["bucket"], v)
    acc.violations = list(by.values())


def sequences(acc: Acc, tier, shard, nshards):
    L = TIERS[tier]["seq_len"]
    ops = ops_alphabet()
    base = [o for o in ops if not (o[0] == "getitem" and o[1] in PROBE_KEYS)]
    firsts = [o for i, o in enumerate(base) if i % nshards == shard]
    for factory in (False, True):
        for first in firsts:
            for rest in itertools.product(*([base] * (L - 2) + [ops])) if L >= 2 else [()]:
                seq = (first,) + rest
                m = Model(factory)
                real = make_real(m)
                acc.evaluations += 1
                acc.exhaustive_cases += 1
                for i, op in enumerate(seq):
                    msg = step(real, m, op)
                    if msg:
                        case = {"state": [], "factory": factory, "ops": [list(o) for o in seq[: i + 1]]}
                        acc.violations.append({"bucket": f"{opname(op)}:{'factory' if factory else 'nofactory'}:{msg[:30]}",
                                               "message": f"sequence {seq[: i + 1]!r} (factory={factory}): {msg}", "case": case,
                                               "search": "sequences", "shard": shard, "round": 0, "seed": env.verif_seed(), "tier": tier})
                        break
                if nontrivial_seq(seq):
                    acc.nontrivial.add(env.fp([factory, seq]))
                    if len(acc.samples) < 1 and len(acc.nontrivial) == 50:
                        acc.samples.append({"sequence": [repr(o) for o in seq], "factory": factory})
        if len(acc.violations) > 200:
            break
    _dedupe(acc)


def machine(acc: Acc, tier, shard, nshards):
    from hypothesis import HealthCheck, Phase, seed, settings, strategies as st
    from hypothesis.stateful import RuleBasedStateMachine, initialize, invariant, rule, run_state_machine_as_test

    cfg = TIERS[tier]
    runs = max(1, cfg["machine_runs"] // nshards)
    KEYS2 = ["a", "A", "b", "B", "layers", "Layers", "LAYERS", "classes", "Classes", "name", "NAME", "Name", "x_1", "X_1", "é", "É"]
    leaf = st.one_of(st.integers(-3, 3), st.sampled_from(["x", "Y", ""]), st.booleans(), st.none())
    val = st.recursive(leaf, lambda c: st.one_of(st.lists(c, max_size=3), st.dictionaries(st.sampled_from(["k", "K", "j"]), c, max_size=2)), max_leaves=4)
    key = st.sampled_from(KEYS2)
    state = {"fail": None, "steps": 0, "hist": None}

    class M(RuleBasedStateMachine):
        @initialize(factory=st.booleans(), init=st.lists(st.tuples(key, val), max_size=3))
        def init(self, factory, init):
            C = CIOD()
            self.model = Model(factory)
            self.real = C(C) if factory else C()
            self.hist = [("init", factory, init)]
            for k, v in init:
                self._do(("setitem", k, v))

        def _do(self, op):
            self.hist.append(op)
            state["steps"] += 1
            msg = step(self.real, self.model, op)
            if msg:
                state["fail"] = (msg, list(self.hist), op)
                raise AssertionError(msg)

        @rule(k=key, name=st.sampled_from(["getitem", "delitem", "contains", "has_key", "get", "get_default", "pop", "pop_default", "setdefault"]))
        def keyop(self, k, name):
            self._do((name, k))

        @rule(k=key, v=val, name=st.sampled_from(["setitem", "setdefault_v"]))
        def setop(self, k, v, name):
            self._do((name, k, v))

        @rule(pairs=st.lists(st.tuples(key, val), max_size=3), name=st.sampled_from(["update_map", "update_pairs"]))
        def upd(self, pairs, name):
            self._do((name, tuple(pairs)))

        @rule(name=st.sampled_from(["copy", "copy_method", "deepcopy", "pickle", "keys", "items", "len", "eq_model", "copy_then_mutate", "deepcopy_then_mutate"]))
        def whole(self, name):
            self._do((name,))

        @rule(name=st.sampled_from(["copy", "deepcopy", "pickle", "copy_method"]))
        def replace_by_copy(self, name):
            """continue the history on the copy: it must behave like the original"""
            self.hist.append(("continue_on_" + name,))
            if name == "copy":
                self.real = copy.copy(self.real)
            elif name == "copy_method":
                self.real = self.real.copy()
            elif name == "deepcopy":
                self.real = copy.deepcopy(self.real)
            else:
                self.real = pickle.loads(pickle.dumps(self.real))
            errs = same_state(self.real, self.model)
            if errs:
                state["fail"] = ("; ".join(errs), list(self.hist), (name,))
                raise AssertionError(errs)

        def teardown(self):
            h = getattr(self, "hist", [])
            acc.evaluations += 1
            ops = [o for o in h if o and o[0] != "init" and not str(o[0]).startswith("continue")]
            nt = nontrivial_seq(ops) or any(str(o[0]).startswith("continue") for o in h)
            if nt:
                acc.nontrivial.add(env.fp([repr(h)]))
            for o in h:
                acc.cls("machine:" + str(o[0]))

    masked = set()
    for round_ in range(4):
        state["fail"] = None
        try:
            run_state_machine_as_test(
                seed(env.shard_seed(ID + "/machine", shard, round_))(M),
                settings=settings(max_examples=runs, stateful_step_count=cfg["machine_steps"], deadline=None, database=None,
                                  report_multiple_bugs=False, suppress_health_check=list(HealthCheck),
                                  phases=(Phase.generate, Phase.shrink)),
            )
        except AssertionError:
            pass
        except Exception:
            if state["fail"] is None:
                raise
        if state["fail"] is None:
            break
        msg, hist, op = state["fail"]
        b = f"{op[0]}:machine:{msg[:30]}"
        if b in masked:
            break
        masked.add(b)
        acc.violations.append({"bucket": b, "message": f"history {hist!r:.600}: {msg}",
                               "case": {"history": [list(map(_j, h)) for h in hist]}, "search": "machine", "shard": shard,
                               "round": round_, "seed": env.verif_seed(), "tier": tier})
        break  # the machine stops at the first failure; bfs/sequences enumerate the rest


def check_loaded(text):
    """The dictionaries loads returns (nested, with object lists, POINTS lists of lists, key-value blocks):
    copy / deepcopy / pickle give an equal dictionary of the same class and behaviour at every level,
    deepcopy and pickle share no mutable container with the original, a mutated deep copy leaves it alone."""
    from .. import refdict

    W = env.Workers.get()
    C = CIOD()
    d = W.loads(text)
    roots = d if isinstance(d, list) else [d]
    snap = refdict.snapshot(d)
    for how in ("deepcopy", "pickle", "copy", "copy_method"):
        c = copy.deepcopy(d) if how == "deepcopy" else pickle.loads(pickle.dumps(d)) if how == "pickle" else \
            copy.copy(d) if how == "copy" or isinstance(d, list) else d.copy()
        if refdict.snapshot(c) != snap:
            return [Discrepancy(f"loaded:{how}:not_equal", f"{how} of a loaded dictionary is not equal to it", {"text": text})]
        if c != d or d != c:
            return [Discrepancy(f"loaded:{how}:neq", f"{how} of a loaded dictionary does not compare equal (==) to it", {"text": text})]
        deep = how in ("deepcopy", "pickle")
        # same classes and default rule at every level (shallow copies: top level)
        pairs = [(d, c)]
        while pairs:
            a, b = pairs.pop()
            if type(a) is not type(b):
                return [Discrepancy(f"loaded:{how}:class", f"{how}: {type(a).__name__} became {type(b).__name__}", {"text": text})]
            if isinstance(a, C):
                if (a.default_factory is None) != (b.default_factory is None):
                    return [Discrepancy(f"loaded:{how}:factory", f"{how}: default factory {'lost' if a.default_factory else 'appeared'}", {"text": text})]
                if list(OrderedDict.keys(a)) != list(OrderedDict.keys(b)):
                    return [Discrepancy(f"loaded:{how}:order", f"{how}: key order changed", {"text": text})]
                if deep or a is d:
                    k0 = next(iter(OrderedDict.keys(b)), None)
                    # (only keys whose upper-case form folds back to them: "straße".upper().lower() is "strasse")
                    if k0 is not None and isinstance(k0, str) and k0.upper().lower() == k0 and \
                            (k0.upper() not in b or b.get(k0.upper()) is not OrderedDict.__getitem__(b, k0)):
                        return [Discrepancy(f"loaded:{how}:casefold", f"{how}: the copy lost case-insensitive lookup", {"text": text})]
                if deep:
                    pairs.extend(zip(OrderedDict.values(a), OrderedDict.values(b)))
            elif isinstance(a, (list, tuple)) and deep:
                pairs.extend(zip(a, b))
        if deep:
            shared = containers(d) & containers(c)
            if shared:
                return [Discrepancy(f"loaded:{how}:shared", f"{how} of a loaded dictionary shares {len(shared)} mutable container(s) with it", {"text": text})]
            _mutate_all(c)
            if refdict.snapshot(d) != snap:
                return [Discrepancy(f"loaded:{how}:aliased", f"mutating the {how} changed the original", {"text": text})]
    return []


def _mutate_all(x):
    if isinstance(x, dict):
        for v in list(dict.values(x)):
            _mutate_all(v)
        dict.__setitem__(x, "mfv_mut", 1)
    elif isinstance(x, list):
        for v in x:
            _mutate_all(v)
        x.append("mfv_mut")
    elif isinstance(x, tuple):
        for v in x:
            _mutate_all(v)


def loaded(acc: Acc, tier, shard, nshards):
    from .. import model, render
    from ..harness import hyp_search

    n = max(1, TIERS[tier]["loaded"] // nshards)
    prof = model.Profile(max_depth=3, max_items=6, includes=False)

    def body(data):
        ch = model.Ch(data.draw)
        g = model.Gen(ch, prof)
        doc = model.any_document(g)
        text = render.render(doc).text
        st_ = model.stats_of(doc)
        npairs = sum(1 for r in doc for _, o in model.walk(r) for it in o["items"] if it[0] == "pairs")
        acc.case(text, st_["objects"] >= 3 or npairs > 0)
        if npairs:
            acc.cls("loaded:with_points_or_pattern")
        acc.cls("loaded:documents")
        return check_loaded(text)

    hyp_search(acc, ID, "loaded", shard, n, body, tier)


def _j(x):
    return list(x) if isinstance(x, tuple) else x


def replay(case):
    if "text" in case:
        return check_loaded(case["text"])
    if "ops" in case:
        m = Model(case.get("factory", False), [(k, v) for k, v in case.get("state", [])])
        real = make_real(m)
        for op in case["ops"]:
            op = tuple(tuple(tuple(p) if isinstance(p, list) else p for p in x) if isinstance(x, list) and x and isinstance(x[0], list) else x for x in op)
            msg = step(real, m, op)
            if msg:
                return [Discrepancy(f"{op[0]}:replay", msg, case)]
        return []
    if "history" in case:
        C = CIOD()
        h = case["history"]
        factory = h[0][1]
        m = Model(factory)
        real = C(C) if factory else C()
        ops = [("setitem", k, v) for k, v in h[0][2]] + [tuple(o) for o in h[1:]]
        for op in ops:
            if str(op[0]).startswith("continue_on_"):
                real = copy.deepcopy(real) if "deepcopy" in op[0] else pickle.loads(pickle.dumps(real)) if "pickle" in op[0] else copy.copy(real)
                errs = same_state(real, m)
                if errs:
                    return [Discrepancy("copy:replay", "; ".join(errs), case)]
                continue
            if op[0] in ("update_map", "update_pairs"):
                op = (op[0], tuple(tuple(p) for p in op[1]))
            msg = step(real, m, op)
            if msg:
                return [Discrepancy(f"{op[0]}:replay", msg, case)]
    return []
