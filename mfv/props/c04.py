"""C04 - formatting is a deterministic normal form (idempotent)."""
from __future__ import annotations

import copy
import json
import os
import re
import subprocess
import sys

from .. import corpus, env, model, options, refdict, render
from ..harness import Acc, Discrepancy, hyp_each, hyp_search
from .c01 import all_strings
from .c06 import optkey

ID = "C04"
RULE = ("Corpus files and Hypothesis-drawn documents (random surface) under drawn option sets (thorough: the whole "
        "admissible cross product on corpus files): t = dumps(loads(src), **o); d = loads(t); t2 = dumps(d, **o) must be "
        "byte-identical to t, loads(t2) must equal d exactly, and two dumps calls on equal dictionaries (fresh printer) must "
        "give the same text; thorough also formats a pool in a second interpreter under another PYTHONHASHSEED. "
        "Non-trivial: formatting changed the source text and the document has an enum word, expression or float. "
        "Distinct = (document, option set).")
ASSUMPTIONS = [
    "output quote absent from all strings; newlinechar ' ' only without end comments",
    "separate_complex_types is applied to a deep copy (it reorders its argument in place, which C12 excludes from purity)",
]
TIERS = {
    "quick": {"examples": 8000, "sets_per_doc": 3, "corpus_sets": 8, "budget_s": 110},
    "thorough": {"examples": 80000, "sets_per_doc": 4, "corpus_sets": 120, "budget_s": 1800, "second_interp": 40},
}
PARTS = ["corpus_part", "search", "cross_process"]


def bucket(stage, o, detail):
    feat = "+".join(k for k in ("separate_complex_types", "align_values", "end_comment") if o.get(k)) or "plain"
    nl = {"\n": "LF", "\r\n": "CRLF", " ": "SP"}[o["newlinechar"]]
    return f"{stage}:{feat}:{nl}:{re.sub(r'[0-9]+', 'N', detail)[:40]}"


def first_diff(a, b):
    n = min(len(a), len(b))
    i = next((k for k in range(n) if a[k] != b[k]), n)
    return f"at char {i}: {a[max(0, i - 30):i + 30]!r} vs {b[max(0, i - 30):i + 30]!r}"


def _kw_of_line(t, i):
    start = t.rfind("\n", 0, i) + 1
    return t[start:i + 20].strip().split(" ")[0][:20]


def check_normal_form(d0, o, case, fresh_printer=False, between=None):
    W = env.Workers.get()
    try:
        t = W.dumps(copy.deepcopy(d0), **o)
        d = W.loads(t)
    except Exception as e:
        return [Discrepancy(bucket("first_pass", o, type(e).__name__), f"first formatting pass failed: {type(e).__name__}: {e!s:.120}", case)]
    try:
        t2 = W.dumps(copy.deepcopy(d), **o)
    except Exception as e:
        return [Discrepancy(bucket("second_pass", o, type(e).__name__), f"second pass raised {type(e).__name__}: {e!s:.120}", case)]
    if t2 != t:
        n = min(len(t), len(t2))
        i = next((k for k in range(n) if t[k] != t2[k]), n)
        return [Discrepancy(bucket("not_idempotent", o, _kw_of_line(t, i)), f"second pass differs {first_diff(t, t2)} with {o}", case)]
    try:
        d2 = W.loads(t2)
    except Exception as e:
        return [Discrepancy(bucket("reload", o, type(e).__name__), f"second text rejected: {e!s:.120}", case)]
    for loc, msg in refdict.equal_dicts(d, d2):
        return [Discrepancy(bucket("content", o, loc.split("/")[-1]), f"loads(t) != loads(dumps(loads(t))) at {loc}: {msg}", case)]
    # determinism: a fresh printer object on an equal dictionary - also when other work was done in between
    # (a version-aware validation or create() of some type: "the same dictionary and options always produce the same text")
    if between:
        import mappyfile

        try:
            if between[0] == "validate":
                root = (d[0] if isinstance(d, list) else d)
                W.Validator().validate(copy.deepcopy(root), schema_name=root["__type__"], version=between[1])
                if root["__type__"] == "map":
                    mappyfile.validate(copy.deepcopy(root), version=between[1])
            else:
                mappyfile.create(between[1], between[2])
        except Exception:
            pass   # (what these calls return or raise is C07 / C09 / C19's business)
    t3 = W.PrettyPrinter(**o).pprint(copy.deepcopy(d))
    if t3 != t:
        return [Discrepancy(bucket("nondeterministic", o, ""), f"same dictionary and options, different text {first_diff(t, t3)}", case)]
    # ... and the very same dictionary object printed twice (separate_complex_types is documented to reorder its argument)
    if not o["separate_complex_types"]:
        ta = W.dumps(d, **o)
        tb = W.dumps(d, **o)
        if ta != tb or ta != t:
            i = next((k for k in range(min(len(ta), len(tb))) if ta[k] != tb[k]), 0)
            return [Discrepancy(bucket("same_object_twice", o, _kw_of_line(ta, i)), f"printing the same dictionary object twice gives different text {first_diff(ta, tb)}", case)]
    return []


INTERESTING = re.compile(r"\(|\d\.\d")


def corpus_part(acc: Acc, tier, shard, nshards):
    items = list(corpus.load_all(shard, nshards, acc))
    k = TIERS[tier]["corpus_sets"]

    def make_body(item):
      p, text, d = item

      def body(data):
        ch = model.Ch(data.draw)
        qs = options.usable_quotes(all_strings(d))
        if not qs:
            acc.excl("corpus:both_quotes_in_strings")
            return []
        o = options.draw(ch, quotes=qs)
        acc.case([corpus.rel(p), optkey(o)], True, sample={"file": corpus.rel(p), "options": o})
        acc.cls("corpus_cases")
        return check_normal_form(d, o, {"file": corpus.rel(p), "options": o})

      return body

    hyp_each(acc, ID, "corpus", shard, items, k, make_body, tier, key=lambda it: corpus.rel(it[0]))


def search(acc: Acc, tier, shard, nshards):
    cfg = TIERS[tier]
    n = cfg["examples"] // nshards
    W = env.Workers.get()

    def body(data):
        ch = model.Ch(data.draw)
        quotes = ch.choice([['"'], ["'"], ['"', "'"]])
        prof = model.Profile(max_depth=4, max_items=6, forbid="".join(quotes), lookalike_multi=False)
        doc = model.any_document(model.Gen(ch, prof))
        text = render.render(doc, render.Surface(ch)).text
        try:
            d = W.loads(text)
        except Exception as e:
            return [Discrepancy(f"load:{type(e).__name__}", f"generated document rejected: {e!s:.150}", {"text": text})]
        s = model.stats_of(doc)
        nt = any(c in s["classes"] for c in ("enum", "expr", "float"))
        out = []
        for _ in range(cfg["sets_per_doc"]):
            o = options.draw(ch, quotes=quotes)
            acc.case([doc, optkey(o)], nt, sample={"text": text[:700], "options": o} if len(text) > 150 else None)
            acc.cls("opt:" + optkey(o)[2:])
            between = None
            if ch.chance(1, 3):
                v = ch.choice([5.0, 6.0, 7.0, 7.6, 8.0, 8.2])
                between = ["validate", v] if ch.bool() else ["create", ch.choice(["map", "layer", "class", "label", "style", "web"]), v]
                acc.cls("between:" + between[0])
            out += check_normal_form(d, o, {"text": text, "options": o, "between": between}, between=between)
        return out

    hyp_search(acc, ID, "documents", shard, n, body, tier)
    if tier == "thorough" and shard == 0:
        second_interpreter(acc, cfg["second_interp"])


_CHILD = r"""
import sys, json, hashlib
sys.path.insert(0, %r); sys.path.insert(0, %r)
from mfv import env, corpus
W = env.Workers.get()
out = {}
for p in json.loads(sys.argv[1]):
    d = W.loads(corpus.read(p))
    out[p] = hashlib.sha1(W.dumps(d, end_comment=True, align_values=True, separate_complex_types=True).encode()).hexdigest()
print(json.dumps(out))
"""


def second_interpreter(acc, n):
    """Format a pool of corpus files in fresh interpreters under two PYTHONHASHSEEDs and compare the bytes."""
    files = [f for f in corpus.files()][:: max(1, len(corpus.files()) // n)][:n]
    ok = []
    W = env.Workers.get()
    for f in files:
        try:
            W.loads(corpus.read(f))
            ok.append(f)
        except Exception:
            pass
    import json

    res = []
    for hs in ("0", "12345"):
        e = dict(os.environ, PYTHONHASHSEED=hs)
        r = subprocess.run([sys.executable, "-c", _CHILD % (env.VERIF, env.REPO), json.dumps(ok)], capture_output=True, text=True, env=e)
        if r.returncode != 0:
            raise RuntimeError("second interpreter failed: " + r.stderr[-500:])
        res.append(json.loads(r.stdout.strip().split("\n")[-1]))
    for f in ok:
        acc.case(["second_interp", f], True)
        acc.cls("second_interpreter_files")
        if res[0][f] != res[1][f]:
            acc.violations.append({"bucket": "hashseed_dependent_output", "message": f"dumps output of {f} depends on PYTHONHASHSEED",
                                   "case": {"file": corpus.rel(f), "options": dict(options.DEFAULT, end_comment=True, align_values=True, separate_complex_types=True)},
                                   "search": "second_interpreter", "shard": 0, "round": 0, "seed": env.verif_seed(), "tier": "thorough"})


CROSS_DOCS = [
    "MAP\n  NAME 'm'\n  PROJECTION\n    'init=epsg:4326'\n  END\n  WEB\n    METADATA\n      'a' 'b'\n    END\n  END\n  EXTENT 0 0 1 1\n  LEGEND\n    STATUS ON\n  END\n"
    "  SCALEBAR\n    STATUS ON\n  END\n  OUTPUTFORMAT\n    NAME 'png'\n  END\n  SYMBOL\n    NAME 's'\n    TYPE ELLIPSE\n    POINTS\n      1 1\n    END\n  END\n"
    "  LAYER\n    NAME 'l'\n    TYPE POINT\n    METADATA\n      'k' 'v'\n    END\n    CLASS\n      STYLE\n        COLOR 1 2 3\n      END\n      LABEL\n        SIZE 8\n      END\n      NAME 'c'\n    END\n    STATUS ON\n  END\n  DEBUG 1\nEND\n",
    "LAYER\n  CLASS\n    LABEL\n    END\n    STYLE\n    END\n    LEADER\n    END\n    NAME 'x'\n  END\n  PROJECTION\n    AUTO\n  END\n  FEATURE\n    POINTS\n      0 0\n    END\n  END\n  TYPE POINT\n  VALIDATION\n    'q' 'r'\n  END\nEND\n",
]


def cross_process_case(text, o, hashseed):
    """the same text and options in another interpreter (other string-hash seed): the same characters"""
    import subprocess
    import sys

    W = env.Workers.get()
    here = W.PrettyPrinter(**o).pprint(W.loads(text))
    code = ("import sys, json; sys.path.insert(0, %r); import mappyfile; o = json.loads(sys.argv[1]); "
            "sys.stdout.buffer.write(mappyfile.dumps(mappyfile.loads(sys.stdin.read(), expand_includes=False), **o).encode('utf-8'))" % env.REPO)
    e = dict(os.environ, PYTHONHASHSEED=str(hashseed))
    e.pop("PYTHONPATH", None)
    r = subprocess.run([sys.executable, "-c", code, json.dumps(o)], input=text.encode("utf-8"), capture_output=True, env=e, timeout=300)
    case = {"cross_text": text, "options": o, "hashseed": hashseed}
    if r.returncode != 0:
        return [Discrepancy("cross_process:failed", f"formatting in a second interpreter failed: {r.stderr.decode('utf-8', 'replace')[-200:]}", case)]
    there = r.stdout.decode("utf-8")
    if there != here:
        return [Discrepancy("cross_process:differs", f"the same text and options give different output in another interpreter (PYTHONHASHSEED={hashseed}): {first_diff(here, there)}", case)]
    return []


def cross_process(acc: Acc, tier, shard, nshards):
    opts = [dict(options.DEFAULT, separate_complex_types=True), dict(options.DEFAULT, separate_complex_types=True, align_values=True, end_comment=True), dict(options.DEFAULT)]
    seeds = (1, 2) if tier == "quick" else (1, 2, 3, 5, 8, 13, 21, 34)
    idx = 0
    for text in CROSS_DOCS:
        for o in opts:
            for hs in seeds:
                idx += 1
                if idx % nshards != shard:
                    continue
                acc.evaluations += 1
                acc.nontrivial.add(env.fp(["cross", text, optkey(o), hs]))
                acc.cls("cross_process_runs")
                for dd in cross_process_case(text, o, hs):
                    if not any(v["bucket"] == dd.bucket for v in acc.violations):
                        acc.violations.append({**dd.as_dict(), "search": "cross_process", "shard": shard, "round": 0, "seed": env.verif_seed(), "tier": tier})


def replay(case):
    if "cross_text" in case:
        return cross_process_case(case["cross_text"], case["options"], case["hashseed"])
    W = env.Workers.get()
    text = corpus.read(os.path.join(env.REPO, case["file"])) if "file" in case else case["text"]
    return check_normal_form(W.loads(text), case["options"], case, between=case.get("between"))
