"""C02 - parsed dictionary follows the documented text-to-dict contract.

Generator: schema-driven document models (all object types, keywords, value shapes,
forced special structures), rendered canonically and under a random surface by the
independent renderer.  Oracle: loads(text) vs refdict(model), structural walk."""
from __future__ import annotations

import re

from .. import env, model, refdict, render
from ..harness import Acc, Discrepancy, hyp_search

ID = "C02"
RULE = ("Hypothesis draws a document model from the JSON-schema vocabulary (19 object types + SYMBOLSET, every keyword "
        "slot, every value shape, duplicates, repeated blocks, several roots), the independent renderer writes it "
        "canonically and under a drawn surface, and loads() of each text is compared with the reference dictionary "
        "built from the model (key sequence, value types, values, __type__, nesting). Non-trivial: >= 2 nesting levels "
        "or >= 1 special structure (duplicate keyword, repeated block, key-value block, CONFIG, PROJECTION, POINTS, "
        "PATTERN, repeatable keyword, several roots, SYMBOLSET). Distinct = fingerprint of the model.")
ASSUMPTIONS = [
    "renderer and reference dictionary are written from the documentation and share no code with mappyfile",
    "strings never contain both quote characters, never end in a backslash, hex-colour look-alikes are not free strings",
    "bare (unquoted) strings are [A-Za-z_][A-Za-z0-9_]* outside the reserved words and schema keywords",
    "expression values are compared through the C10 reference parser (same tree), not by string equality",
]
TIERS = {
    "quick": {"examples": 16000, "budget_s": 100},
    "thorough": {"examples": 160000, "budget_s": 1500},
}
PARTS = ["search"]
SLOT_ALTS_TOTAL = "distinct (object type, keyword, value class) combinations seen; the vocabulary has 414 (slot, alternative) pairs"


def profile():
    return model.Profile(max_depth=4, max_items=7)


def special(doc):
    tags = set()
    if len(doc) > 1:
        tags.add("multi_root")
    for root in doc:
        if root["t"] == "symbolset":
            tags.add("symbolset")
        for path, o in model.walk(root):
            seen = {}
            child_types = []
            for it in o["items"]:
                k = it[0]
                if k == "attr":
                    if it[1] in seen:
                        tags.add("dup_keyword")
                    seen[it[1]] = 1
                elif k == "obj":
                    ct = it[1]["t"]
                    if ct in child_types:
                        tags.add("repeated_block" if ct not in model.SINGLETON else "singleton_twice")
                        if child_types[-1] != ct:
                            tags.add("interleaved_blocks")
                    child_types.append(ct)
                elif k == "kv":
                    tags.add("kv")
                    keys = [a.lower() for a, _ in it[2]]
                    if len(set(keys)) < len(keys):
                        tags.add("kv_dup_key")
                    if ("kv", it[1]) in seen:
                        tags.add("kv_block_twice")
                    seen[("kv", it[1])] = 1
                elif k == "config":
                    tags.add("config")
                elif k == "proj":
                    tags.add("projection_auto" if isinstance(it[1], str) else "projection")
                elif k == "pairs":
                    if ("pairs", it[1]) in seen:
                        tags.add(it[1] + "_repeated")
                    seen[("pairs", it[1])] = 1
                    tags.add(it[1])
                elif k == "rep":
                    tags.add("repeatable_keyword")
    return tags


def bucket_of(stage, loc, msg):
    key = re.sub(r"\[\d+\]", "", loc).split("/")[-1] if loc else ""
    m = re.sub(r"[0-9]+", "N", msg)[:40]
    return f"{stage}:{key}:{m}"


def check(doc, texts, public=False):
    """texts: list of (label, text).  -> list[Discrepancy]"""
    W = env.Workers.get()
    exp = refdict.refdict(doc)
    out = []
    for label, text in texts:
        case = {"doc": doc, "text": text, "surface": label}
        try:
            if public:
                import mappyfile

                d = mappyfile.loads(text, expand_includes=False)
            else:
                d = W.loads(text)
        except Exception as e:  # any failure to load a valid document
            tok = getattr(getattr(e, "token", None), "type", "")
            out.append(Discrepancy(f"load:{label}:{type(e).__name__}:{tok}", f"loads raised {type(e).__name__}: {str(e)[:200]}", case))
            continue
        for loc, msg in refdict.compare(exp, d):
            out.append(Discrepancy(bucket_of("contract", loc, msg), f"{label} text, at {loc}: {msg}", case))
            break
    return out


def search(acc: Acc, tier, shard, nshards):
    n = TIERS[tier]["examples"] // nshards
    prof = profile()
    counter = {"i": 0}

    def body(data):
        ch = model.Ch(data.draw)
        st_ = {}
        doc = model.any_document(model.Gen(ch, prof, st_))
        canon = render.render(doc).text
        surf = render.Surface(ch, stats=st_, numbers=True)
        fancy = render.render(doc, surf).text
        counter["i"] += 1
        tags = special(doc)
        s = model.stats_of(doc)
        nontrivial = s["depth"] >= 2 or bool(tags)
        acc.case(doc, nontrivial, sample={"text": canon[:1500], "special": sorted(tags)})
        for t in tags:
            acc.cls("special:" + t)
        for c in s["classes"]:
            acc.cls("shape:" + c)
        for r in doc:
            for _, o in model.walk(r):
                for it in o["items"]:
                    if it[0] != "obj":
                        acc.cls(f"sa:{o['t']}.{it[1] if it[0] != 'config' else 'config'}:{it[2] if it[0] == 'attr' else it[0]}")
        for r in doc:
            acc.cls("root:" + r["t"])
        for k, v in st_.items():
            if k.startswith("excluded:"):
                acc.excl(k[9:], v)
            elif k.startswith(("sep:", "kwcase:", "quote:", "bare", "str:")):
                acc.cls("surface:" + k if not k.startswith("str:") else k, v)
        return check(doc, [("canonical", canon), ("surface", fancy)], public=ch.chance(1, 50))

    hyp_search(acc, ID, "documents", shard, n, body, tier)


def replay(case):
    if "doc" in case:
        return check(case["doc"], [(case.get("surface", "replay"), case["text"])])
    # literal form: {"text":..., "expect": {...}}
    W = env.Workers.get()
    try:
        d = W.loads(case["text"])
    except Exception as e:
        return [Discrepancy(f"load:{type(e).__name__}", f"loads raised {type(e).__name__}: {str(e)[:200]}", case)]
    return [Discrepancy(bucket_of("contract", loc, msg), f"at {loc}: {msg}", case)
            for loc, msg in refdict.compare(case["expect"], d)][:1]
