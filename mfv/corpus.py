"""The .map files shipped under /repo/tests and /repo/docs (DESIGN 3.6)."""
from __future__ import annotations

import os
from functools import lru_cache

from . import env


@lru_cache(maxsize=None)
def files():
    out = []
    for top in ("tests", "docs"):
        for dp, dn, fn in os.walk(os.path.join(env.REPO, top)):
            dn.sort()
            for f in sorted(fn):
                if f.lower().endswith(".map"):
                    out.append(os.path.join(dp, f))
    return out


def read(path):
    with open(path, encoding="utf-8", newline="") as f:
        return f.read()


def shard_files(shard, nshards):
    fs = files()
    return [f for i, f in enumerate(fs) if i % nshards == shard]


def load_all(shard, nshards, acc=None, comments=False, position=False):
    """Yield (path, text, dict) for the parseable corpus files of this shard."""
    W = env.Workers.get()
    for p in shard_files(shard, nshards):
        try:
            text = read(p)
        except UnicodeDecodeError:
            if acc is not None:
                acc.excl("corpus:not_utf8")
            continue
        try:
            d = W.loads(text, position=position, comments=comments)
        except Exception as e:
            if acc is not None:
                acc.excl("corpus:unparseable:" + type(e).__name__)
            continue
        yield p, text, d


def rel(path):
    return os.path.relpath(path, env.REPO)
