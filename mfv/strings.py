"""Free-string generation with labelled classes (DESIGN 3.3) and the soundness
exclusions of DESIGN section 5."""
from __future__ import annotations

import re

from hypothesis import strategies as st

from . import vocab

_HEXLIKE = re.compile(r"#[0-9a-fA-F]+")
_BARE = re.compile(r"[A-Za-z_][A-Za-z0-9_]*")

WORDS = ["roads", "alpha", "Beta_1", "x", "my_layer", "Zed9", "a1", "Test", "lakes_poly", "N"]
SPACED = ["a b", "Hello, World!", "semi; colon: x = y", "100% & more", "a < b > c * ?", "tab\there", " lead", "trail ",
          "a,b,c", "k=v", "x-y", "dash - dash", "+init=epsg:4326"]
SQL = ["select * from t where a = 1", "the_geom from (select * from roads) as foo using unique gid using srid=4326",
       "host=localhost dbname=gis user=u password=p port=5432", "geom FROM tbl WHERE id > 5"]
PATHS = ["/tmp/x/", "C:/ms4w/x.shp", "../a.b", "data/roads.shp", "./etc/fonts.txt", "http://example.com/wms?a=1&b=2",
         "C:\\data\\x.shp", "a\\b"]
HASHY = ["# not a comment", "a # b", "/* c */", "x /* y", "*/ z", "//", "a#b", "#", "##x", "#zz", "# END"]
RESERVED = ["END", "end", "LAYER", "map", "Style END", "CLASS x END", "METADATA", "PROJECTION", "AUTO", "TRUE", "false",
            "NOT", "and or", "SYMBOL", "include", "INCLUDE x.map", "POINTS 1 1 END", "NULL", "hilite"]
DIGITS = ["7", "007", "1e5", "3.14", "-1", "0", "12abc", "7up", "1 2 3", "255 0 0", ".5", "+4"]
LATIN1 = ["caf\u00e9", "\u00fcn\u00ef c\u00f8d\u00e9", "\u00c0\u00ff", "stra\u00dfe", "\u00a9 2020", "\u00b1\u00b5"]
BMP = ["\u8def", "\u0420\u043e\u0441\u0441\u0438\u044f", "\u65e5\u672c\u8a9e \u30c6\u30b9\u30c8", "\u0645\u0631\u062d\u0628\u0627", "\u2192 \u2713", "\u20ac100", "\ufeffbom", "z\u0301"]
ASTRAL = ["\U0001f600", "a\U0001f30db", "\U00010348", "\U0001f1ec\U0001f1e7", "\U0002a6d6x"]
MULTILINE = ["line1\nline2", "select a,\n  b\nfrom t", "\nlead", "trail\n", "a\n\nb", "x\n# y\nz", "a\n  END\nb"]
LOOKALIKE = ["(not an expr)", "[notabinding]", "{a,b}", "/notregex/", "x'i", "( [a] = 1 )", "[a] [b]", "/a/i", "NOT (x)", "(", "[x", "/"]
QUOTES1 = ["it's", "d'Artagnan", "'", "'x'", "a 'b' c", "''", "'+proj=longlat'", "'a b'", "x'"]
QUOTES2 = ['say "hi"', '"', '"x"', 'a "b" c', '""', '6" pipe', '"+datum=WGS84"', '"a b"']
WRAPPED = ["'x'", '"x"', "'+proj=longlat'", '"+datum=WGS84"', "'a b'", '"a b"', "''", '""', "'it'", '"7"', "'#fff'", "'[a]'"]
ESCAPED = ['Size 5\\"', '\\"Tignish', 'say \\"hi\\" now', "it\\'s", "rock \\'n\\' roll", '6\\" pipe', "end\\'"]
# characters that str.splitlines() / str.strip() / \s treat as line breaks or white space but that are ordinary
# characters inside a quoted Mapfile string (a carriage return is not in the list: see KF15)
LINESEP = ["line\u2028sep", "para\u2029graph", "next\x85line", "form\x0cfeed", "v\x0btab", "fs\x1cgs\x1drs\x1e", "\u2028",
           "x\x0c", "\x85y", "nb\xa0sp", "wide\u3000space", "tab\there", "\x0c include", "\u2028include x", "a\x1f", "\x7f"]
BACKSL = ["a\\b", "\\d+", "C:\\x", "\\\\server\\share", "a\\ b", "\\n"]

_ALPHA = st.characters(
    blacklist_categories=("Cs", "Cc"), blacklist_characters="\"'\\`"
)
_RANDOM = st.text(alphabet=_ALPHA, min_size=1, max_size=12)
_RANDOM_ASCII = st.text(alphabet=st.sampled_from(list(" abcXYZ019_-.,;:=%&<>*?!@$^~|+/()[]{}#")), min_size=1, max_size=14)

CLASS_POOLS = {
    "word": WORDS, "spaced": SPACED, "sql": SQL, "path": PATHS, "hashy": HASHY, "reserved": RESERVED,
    "digits": DIGITS, "latin1": LATIN1, "bmp": BMP, "astral": ASTRAL, "multiline": MULTILINE,
    "lookalike": LOOKALIKE, "squote": QUOTES1, "dquote": QUOTES2, "backslash": BACKSL, "wrapped": WRAPPED, "escaped": ESCAPED,
    "linesep": LINESEP,
}
ORDER = ["word", "spaced", "sql", "path", "hashy", "reserved", "digits", "empty", "latin1", "bmp", "astral",
         "multiline", "lookalike", "squote", "dquote", "backslash", "wrapped", "escaped", "linesep", "random", "random_ascii"]


def is_lookalike(s: str) -> bool:
    t = s.strip()
    if not t:
        return False
    pairs = (("(", ")"), ("[", "]"), ("{", "}"), ("/", "/"))
    for a, b in pairs:
        if t.startswith(a) and t.endswith(b):
            return True
    if s.endswith("'i") or s.endswith('"i'):
        return True
    if s.startswith("NOT ") :
        return True
    if t[0] in "([{/" or t[-1] in ")]}/":
        # half-wrapped strings: the printer's tests use strip()+startswith/endswith; keep clear of them
        return True
    return False


def unescaped(s: str, q: str) -> bool:
    """does s contain an occurrence of the quote character q that is not preceded by a backslash?"""
    return any(c == q and (i == 0 or s[i - 1] != "\\") for i, c in enumerate(s))


def ok(s: str, forbid: str = "", lookalike_ok: bool = True, multiline_ok: bool = True, empty_ok: bool = True) -> bool:
    # the documented exclusion is an UNESCAPED occurrence of the output quote; \" inside a string is Mapfile syntax
    if any((unescaped(s, c) if c in "\"'" else c in s) for c in forbid):
        return False
    if s.endswith("\\"):
        return False
    if '"' in s and "'" in s:
        return False
    if unescaped(s, '"') and "\\\"" in s or unescaped(s, "'") and "\\'" in s:
        return False   # escaped and unescaped occurrences of one quote character: cannot be written with either quote
    if _HEXLIKE.fullmatch(s.strip()):
        return False
    if not empty_ok and s == "":
        return False
    if "\r" in s:
        return False
    if "\n" in s:
        if not multiline_ok:
            return False
        for line in s.split("\n")[1:]:
            if line.strip().lower().startswith("include"):
                return False
    if not lookalike_ok and is_lookalike(s):
        return False
    return True


def free_string(ch, forbid="", lookalike_ok=True, multiline_ok=True, empty_ok=True, simple=False):
    """-> (string, class label).  Construction, not rejection: falls back to a plain word."""
    if simple:
        return ch.choice(WORDS), "word"
    for _ in range(3):
        cls = ch.choice(ORDER)
        if cls == "empty":
            s = ""
        elif cls == "random":
            s = ch.draw(_RANDOM)
        elif cls == "random_ascii":
            s = ch.draw(_RANDOM_ASCII)
        else:
            s = ch.choice(CLASS_POOLS[cls])
        if ok(s, forbid, lookalike_ok, multiline_ok, empty_ok):
            return s, cls
    return ch.choice(WORDS), "word"


def schema_keywords():
    kws = set()
    for t in vocab.all_types():
        kws.update(vocab.slots(t).keys())
        kws.add(t)
    return kws


_RES = None


def is_bare_word(s: str) -> bool:
    """May this string value be written without quotes (MapServer: alphanumeric, not a keyword)?"""
    global _RES
    if _RES is None:
        _RES = set(vocab.reserved_words()) | schema_keywords() | {"include", "normal", "on", "off", "yes", "no"}
    return bool(_BARE.fullmatch(s)) and s.lower() not in _RES and s.isascii()
