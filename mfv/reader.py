"""Independent reader of pretty-printed Mapfile text (DESIGN 3.4).

A character-level tokenizer plus a tiny block reader written against MapServer's
lexical conventions and the printer's documented layout.  Shares no code with
mappyfile or Lark.  Only ever applied to dumps() output with a line-break newlinechar.

Token classes: Q quoted string, QI quoted string + i, W bare word, N number, B [binding],
E (expression) or NOT (expression), R /regex/ or /regex/i, L {list}, C comment."""
from __future__ import annotations

import re

NUM = re.compile(r"[-+]?(\d+\.?\d*([eE][-+]?\d+)?|\.\d+([eE][-+]?\d+)?)")
BLOCKS = set(
    "map layer class style label symbol web legend scalebar querymap reference outputformat cluster composite "
    "feature grid join leader scaletoken symbolset".split()
)
KV = {"metadata", "validation", "values", "connectionoptions"}
OTHER_BLOCKS = {"projection", "points", "pattern"}
WS = " \t\r\n\f"


class ReaderError(Exception):
    pass


class T:
    __slots__ = ("line", "col", "cls", "raw", "val", "end_line", "off")

    def __init__(self, line, col, cls, raw, val, off):
        self.line, self.col, self.cls, self.raw, self.val, self.off = line, col, cls, raw, val, off
        self.end_line = line + raw.count("\n")

    def __repr__(self):
        return f"{self.cls}:{self.raw!r}@{self.line}:{self.col}"


def tokenize(text):
    toks = []
    i, n, line, col = 0, len(text), 1, 1

    def adv(j):
        nonlocal i, line, col
        seg = text[i:j]
        nl = seg.count("\n")
        if nl:
            line += nl
            col = len(seg) - seg.rfind("\n")
        else:
            col += len(seg)
        i = j

    while i < n:
        c = text[i]
        if c in WS:
            adv(i + 1)
            continue
        l0, c0, o0 = line, col, i
        if c in "\"'":
            j = i + 1
            while j < n:
                if text[j] == "\\" and j + 1 < n and text[j + 1] == c:
                    j += 2
                    continue
                if text[j] == c:
                    break
                j += 1
            if j >= n:
                raise ReaderError(f"unterminated string at line {l0}")
            end = j + 1
            if end < n and text[end] == "i" and (end + 1 == n or text[end + 1] in WS):
                end += 1
                toks.append(T(l0, c0, "QI", text[i:end], text[i:end], o0))
            else:
                toks.append(T(l0, c0, "Q", text[i:end], text[i + 1:j], o0))
            adv(end)
            continue
        if c == "#":
            j = text.find("\n", i)
            j = n if j < 0 else j
            raw = text[i:j]
            if raw.endswith("\r"):
                raw = raw[:-1]
            toks.append(T(l0, c0, "C", raw, raw, o0))
            adv(i + len(raw))
            continue
        if c == "/" and text.startswith("/*", i):
            j = text.find("*/", i + 2)
            if j < 0:
                raise ReaderError(f"unterminated comment at line {l0}")
            toks.append(T(l0, c0, "C", text[i:j + 2], text[i:j + 2], o0))
            adv(j + 2)
            continue
        if c == "[":
            j = text.find("]", i)
            if j < 0:
                raise ReaderError(f"unterminated binding at line {l0}")
            toks.append(T(l0, c0, "B", text[i:j + 1], text[i:j + 1], o0))
            adv(j + 1)
            continue
        if c == "(" or text.startswith("NOT (", i):
            j = i + (4 if c != "(" else 0)
            depth = 0
            while j < n:
                ch = text[j]
                if ch in "\"'`":
                    k = j + 1
                    while k < n and text[k] != ch:
                        if text[k] == "\\" and k + 1 < n and text[k + 1] == ch:
                            k += 1
                        k += 1
                    j = k + 1
                    continue
                if ch == "(":
                    depth += 1
                elif ch == ")":
                    depth -= 1
                    if depth == 0:
                        break
                j += 1
            if j >= n:
                raise ReaderError(f"unbalanced expression at line {l0}")
            toks.append(T(l0, c0, "E", text[i:j + 1], text[i:j + 1], o0))
            adv(j + 1)
            continue
        if c == "{":
            j = text.find("}", i)
            if j < 0:
                raise ReaderError(f"unterminated list at line {l0}")
            toks.append(T(l0, c0, "L", text[i:j + 1], text[i:j + 1], o0))
            adv(j + 1)
            continue
        if c == "/":
            j = text.find("/", i + 1)
            if j < 0:
                raise ReaderError(f"unterminated regex at line {l0}")
            end = j + 1
            if end < n and text[end] == "i":
                end += 1
            toks.append(T(l0, c0, "R", text[i:end], text[i:end], o0))
            adv(end)
            continue
        j = i
        while j < n and text[j] not in WS:
            j += 1
        raw = text[i:j]
        toks.append(T(l0, c0, "N" if NUM.fullmatch(raw) else "W", raw, raw, o0))
        adv(j)
    return toks


class Line:
    """A logical line: the tokens from one physical line start up to the end of the
    physical line on which the last of them ends (a quoted string may span lines)."""

    __slots__ = ("toks", "comments", "lead", "line", "raw_rest")

    def __init__(self):
        self.toks, self.comments, self.lead, self.line, self.raw_rest = [], [], "", 0, ""


def logical_lines(text):
    toks = tokenize(text)
    phys = text.split("\n")
    lines = []
    cur = None
    cur_end = None
    for t in toks:
        if cur is None or t.line > cur_end:
            cur = Line()
            cur.line = t.line
            cur.lead = phys[t.line - 1][: t.col - 1]
            lines.append(cur)
            cur_end = t.line
        (cur.comments if t.cls == "C" else cur.toks).append(t)
        cur_end = max(cur_end, t.end_line)
    return lines, toks


def events(text):
    """-> (events, lines).  Events:
    ('open', word, line) ('close', word, line) ('attr', key, [(cls, val)...], line)
    ('pair', (cls,k), (cls,v), line) ('config', (cls,k), (cls,v), line) ('proj', cls, val, line)
    ('numpair', a, b, line) ('comment', text, line)"""
    lines, _ = logical_lines(text)
    ev = []
    stack = []
    for ln in lines:
        for c in ln.comments:
            if not ln.toks or c.off < ln.toks[0].off:
                ev.append(("comment", c.raw, ln.line, "before"))
        ts = ln.toks
        if not ts:
            continue
        first = ts[0]
        word = first.val.lower() if first.cls == "W" else None
        top = stack[-1] if stack else None
        if word == "end" and len(ts) == 1:
            if not stack:
                raise ReaderError(f"END without open block at line {ln.line}")
            ev.append(("close", stack.pop(), ln.line))
        elif top in KV:
            if len(ts) != 2:
                raise ReaderError(f"key-value line with {len(ts)} tokens at line {ln.line}: {ts}")
            ev.append(("pair", (ts[0].cls, ts[0].val), (ts[1].cls, ts[1].val), ln.line))
        elif top == "projection":
            if len(ts) != 1:
                raise ReaderError(f"projection line with {len(ts)} tokens at line {ln.line}")
            ev.append(("proj", ts[0].cls, ts[0].val, ln.line))
        elif top in ("points", "pattern"):
            if len(ts) != 2 or any(t.cls != "N" for t in ts):
                raise ReaderError(f"number pair expected at line {ln.line}: {ts}")
            ev.append(("numpair", float(ts[0].val), float(ts[1].val), ln.line))
        else:
            if first.cls != "W":
                raise ReaderError(f"line does not start with a keyword at line {ln.line}: {ts}")
            if len(ts) == 1:
                if word not in BLOCKS | KV | OTHER_BLOCKS:
                    raise ReaderError(f"keyword without value at line {ln.line}: {first.raw}")
                stack.append(word)
                ev.append(("open", word, ln.line))
            elif word == "config":
                if len(ts) != 3:
                    raise ReaderError(f"CONFIG line with {len(ts)} tokens at line {ln.line}")
                ev.append(("config", (ts[1].cls, ts[1].val), (ts[2].cls, ts[2].val), ln.line))
            else:
                ev.append(("attr", word, [(t.cls, t.val) for t in ts[1:]], ln.line))
        for c in ln.comments:
            if ln.toks and c.off > ln.toks[0].off:
                ev.append(("comment", c.raw, ln.line, "after"))
    if stack:
        raise ReaderError(f"unclosed blocks at end of text: {stack}")
    return ev, lines


def strip_comments_events(ev):
    return [e for e in ev if e[0] != "comment"]
