"""Schema-valid documents and injected validation faults (shared by C07 and C08).

A valid document model is rendered and loaded (with positions); faults are then applied
to the loaded dictionary at drawn locations.  Every fault value is confirmed invalid for
its own keyword with the Draft-4 evaluator on the harness's inlined schema, so only
faults that Draft 4 rejects are injected."""
from __future__ import annotations

import copy

from . import model, refdict, render, vocab

_SLOT_VALIDATORS = {}


def slot_validator(type_, key):
    import jsonschema

    k = (type_, key)
    if k not in _SLOT_VALIDATORS:
        sch = vocab.draft4_schema(type_)["properties"][key]
        _SLOT_VALIDATORS[k] = jsonschema.Draft4Validator(sch)
    return _SLOT_VALIDATORS[k]


def lower(x):
    if isinstance(x, (list, tuple)):
        return [lower(v) for v in x]
    if isinstance(x, dict):
        return {str(k).lower(): lower(v) for k, v in x.items()}
    if isinstance(x, str):
        return x.lower()
    return x


def invalid_for_slot(type_, key, value):
    return any(True for _ in slot_validator(type_, key).iter_errors(lower(value)))


def valid_profile(**kw):
    p = model.Profile(valid=True, dups=False, max_depth=4, max_items=6, lookalike_multi=False, includes=True, kv_roots=False,
                      symbolset=False, multi_root=False, inline_symbol=False)
    p.__dict__.update(kw)
    return p


def object_sites(doc):
    """[(model path, obj, dict path)] for every object of a single-root valid document."""
    out = []

    def rec(obj, mpath, dpath):
        out.append((mpath, obj, dpath))
        counts = {}
        for i, it in enumerate(obj["items"]):
            if it[0] == "obj":
                ct = it[1]["t"]
                if ct in model.SINGLETON:
                    rec(it[1], mpath + (i,), dpath + (ct,))
                else:
                    n = counts.get(ct, 0)
                    counts[ct] = n + 1
                    rec(it[1], mpath + (i,), dpath + (refdict.plural(ct), n))

    rec(doc[0], (0,), ())
    return out


def find(d, path):
    for p in path:
        d = d[p]
    return d


FAULT_KINDS = ["enum", "below_min", "above_max", "arity", "wrong_type", "unknown_keyword", "missing_required", "list_item", "repeated_item",
               "member_not_object"]


def candidate_faults(obj):
    """fault kinds applicable to each attr item of an object: [(item index, key, kind)] + object-level kinds"""
    t = obj["t"]
    out = []
    sl = vocab.slots(t)
    for i, it in enumerate(obj["items"]):
        if it[0] != "attr":
            continue
        k = it[1]
        slot = sl[k]
        shapes = slot.shapes()
        out.append((i, k, "wrong_type"))
        if any(s == "enum" for s in shapes):
            out.append((i, k, "enum"))
        for a in slot.alts:
            if a.shape in ("integer", "number"):
                lo, hi, lx, hx = a.bounds()
                n = dict(a.node)
                n.update(a.extra or {})
                if "minimum" in n:
                    out.append((i, k, "below_min"))
                if "maximum" in n:
                    out.append((i, k, "above_max"))
            if a.shape in ("numlist", "anchor", "hexpair", "bindpair", "mixedpair"):
                out.append((i, k, "arity"))
                out.append((i, k, "list_item"))
    reps = {}
    for i, it in enumerate(obj["items"]):
        if it[0] == "rep":
            reps.setdefault(it[1], []).append(i)
    for k, idxs in reps.items():
        out.append((tuple(idxs), k, "repeated_item"))
    out.append((None, None, "unknown_keyword"))
    if vocab.required(t) and any(it[0] == "attr" and it[1] in vocab.required(t) for it in obj["items"]):
        out.append((None, None, "missing_required"))
    return out


def fault_value(ch, type_, key, kind, current):
    slot = vocab.slots(type_)[key]
    if kind == "enum":
        return ch.choice(["bogus", "not_in_enum", "x"])
    if kind in ("below_min", "above_max"):
        for a in slot.alts:
            if a.shape in ("integer", "number"):
                n = dict(a.node)
                n.update(a.extra or {})
                if kind == "below_min" and "minimum" in n:
                    return n["minimum"] - ch.choice([1, 100]) if not ch.chance(1, 8) else float("-inf")   # (ANGLE -1e999 loads as -inf)
                if kind == "above_max" and "maximum" in n:
                    return n["maximum"] + ch.choice([1, 1000]) if not ch.chance(1, 8) else float("inf")
    if kind == "arity":
        cur = list(current) if isinstance(current, (list, tuple)) else [current]
        return cur + [cur[-1]] if ch.bool() or len(cur) < 2 else cur[:-1]
    if kind == "list_item":
        cur = list(current) if isinstance(current, (list, tuple)) else [current]
        j = ch.int(0, len(cur) - 1)
        cur[j] = ch.choice([None, "not a number", True, 0.123456, -10 ** 9])
        return cur
    if kind == "wrong_type":
        return ch.choice([{"nested": 1}, [["x"]], None, 10 ** 12, "free text", True, -99999.5, [1, "a", None]])
    return None


def apply_fault(ch, d, site, cand):
    """Mutate dictionary d at the object `site`.  -> fault record or None when the drawn value is not invalid."""
    mpath, obj, dpath = site
    i, key, kind = cand
    if kind == "member_not_object":
        # a member of a list of child objects (layers, classes, styles, ...) replaced by a scalar: wrong JSON type for the item
        if not dpath or not isinstance(dpath[-1], int):
            return None
        lst = find(d, dpath[:-1])
        lst[dpath[-1]] = ch.choice([5, "oops", True, 2.5])
        return {"kind": kind, "dpath": list(dpath[:-2]), "name": str(dpath[-2]).upper(), "object_level": False, "mpath": list(mpath[:-1]), "item": None,
                "key": dpath[-2], "index": dpath[-1], "value": repr(lst[dpath[-1]])}
    o = find(d, dpath)
    t = obj["t"]
    if kind == "unknown_keyword":
        name = ch.choice(["bogus_kw", "nme", "colour", "x"])
        if name in vocab.slots(t):
            return None
        o[name] = ch.choice([1, "v", [1, 2]])
        return {"kind": kind, "dpath": list(dpath), "name": t.upper(), "object_level": True, "mpath": list(mpath), "item": None, "key": name}
    if kind == "missing_required":
        rk = vocab.required(t)[0]
        if rk not in o:
            return None
        del o[rk]
        return {"kind": kind, "dpath": list(dpath), "name": t.upper(), "object_level": True, "mpath": list(mpath), "item": None, "key": rk}
    if key not in o:
        return None
    if kind == "repeated_item":
        # a non-string entry in one occurrence of a repeatable keyword (PROCESSING, FORMATOPTION, INCLUDE, COMPFILTER)
        if not isinstance(o[key], list) or len(o[key]) != len(i):
            return None
        j = ch.int(0, len(i) - 1)
        o[key][j] = ch.choice([5, 2.5, True])
        return {"kind": kind, "dpath": list(dpath), "name": key.upper(), "object_level": False, "mpath": list(mpath), "item": i[j], "key": key,
                "value": repr(o[key][j]), "occurrence": j}
    v = fault_value(ch, t, key, kind, o[key])
    if v is None and kind != "wrong_type":
        return None
    if not invalid_for_slot(t, key, v):
        return None
    o[key] = v
    return {"kind": kind, "dpath": list(dpath), "name": key.upper(), "object_level": False, "mpath": list(mpath), "item": i, "key": key,
            "value": repr(v)}
