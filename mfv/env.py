"""Environment: where the code under test lives, seeds, logging silence, worker objects."""
from __future__ import annotations

import hashlib
import logging
import os, re
import sys

VERIF = os.path.dirname(os.path.dirname(os.path.abspath(__file__)))
REPO = os.environ.get("MFV_REPO", "/repo")
SCHEMAS = os.path.join(REPO, "mappyfile", "schemas")
NSHARDS = 16

if REPO not in sys.path:
    sys.path.insert(0, REPO)

sys.dont_write_bytecode = True
logging.getLogger("mappyfile").setLevel(logging.CRITICAL + 10)
logging.getLogger("mappyfile").propagate = False


def verif_seed() -> int:
    try:
        return int(os.environ.get("VERIF_SEED", "1"))
    except ValueError:
        return 1


def shard_seed(prop: str, shard: int, round_: int = 0) -> int:
    h = hashlib.sha256(f"{verif_seed()}/{prop}/{shard}/{round_}".encode()).digest()
    return int.from_bytes(h[:8], "big")


def fp(obj) -> str:
    """Short fingerprint of a JSON-able case."""
    import json

    return hashlib.sha1(
        json.dumps(obj, sort_keys=True, default=repr).encode("utf-8", "surrogatepass")
    ).hexdigest()[:16]


_LINE_SEPS = re.compile("[\n\r\x0b\x0c\x1c-\x1e\x85\u2028\u2029]")


def has_include_line(text):
    if "nclude" not in text.lower():
        return False
    return any(l.strip().lower().startswith("include") for l in _LINE_SEPS.split(text))


class Workers:
    """Reusable mappyfile worker objects (built once per process).

    Parser() construction costs ~0.26 s; everything else is cheap."""

    _inst = None

    def __init__(self):
        from mappyfile.parser import Parser
        from mappyfile.transformer import MapfileToDict
        from mappyfile.pprint import PrettyPrinter
        from mappyfile.validator import Validator

        self.Parser, self.MapfileToDict = Parser, MapfileToDict
        self.PrettyPrinter, self.Validator = PrettyPrinter, Validator
        self._parsers = {}
        self._m2d = {}
        self._pp = {}
        self._validator = None

    @classmethod
    def get(cls) -> "Workers":
        if cls._inst is None:
            cls._inst = Workers()
        return cls._inst

    def parser(self, comments=False, expand=False):
        k = (comments, expand)
        if k not in self._parsers:
            self._parsers[k] = self.Parser(expand_includes=expand, include_comments=comments)
        return self._parsers[k]

    def m2d(self, position=False, comments=False):
        k = (position, comments)
        if k not in self._m2d:
            self._m2d[k] = self.MapfileToDict(include_position=position, include_comments=comments)
        return self._m2d[k]

    def printer(self, **opts):
        k = tuple(sorted(opts.items()))
        if k not in self._pp:
            if len(self._pp) > 64:
                self._pp.clear()
            self._pp[k] = self.PrettyPrinter(**opts)
        return self._pp[k]

    def validator(self):
        if self._validator is None:
            self._validator = self.Validator()
        return self._validator

    # the reusable-instance code path named in the properties' observe_at
    def loads(self, text, position=False, comments=False, expand=None):
        # expand=None: what a caller of the public API gets (expand_includes=True, the text goes through the
        # INCLUDE pre-pass) whenever no line of the text could be taken for an INCLUDE directive; texts that
        # carry INCLUDE lines as data are loaded with expand_includes=False (C15 owns their expansion)
        if expand is None:
            expand = not has_include_line(text)
        tree = self.parser(comments, expand).parse(text)
        return self.m2d(position, comments).transform(tree)

    def dumps(self, d, **opts):
        return self.printer(**opts).pprint(d)
