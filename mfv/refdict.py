"""Reference text->dict contract (docs/transformer.rst, docs/examples/sample.json,
the statement of C02).  Written from the documentation; never imports
mappyfile.transformer.  Plus the structural comparison walk used by most properties."""
from __future__ import annotations

from collections import OrderedDict

from . import exprs
from .model import SINGLETON


class Expr:
    """Expected value: any string denoting this tree (checked with the reference parser)."""

    def __init__(self, tree, src):
        self.tree, self.src = tree, src

    def __repr__(self):
        return f"Expr({self.src})"


class ListX:
    """Expected value: a list expression with these elements (spacing around the commas is not content)."""

    def __init__(self, src):
        self.src = src
        self.elements = [x.strip() for x in src.strip()[1:-1].split(",")]

    def __repr__(self):
        return f"ListX({self.src})"


def plural(s):
    return s + "es" if s.endswith("s") else s + "s"


def refdict(doc):
    """doc (list of roots) -> expected loads() result (dict, or list when several roots)."""
    out = [_obj(o) for o in doc]
    return out[0] if len(out) == 1 else out


def _obj(obj):
    d = OrderedDict()
    if "kvroot" in obj:
        for a, b in obj["kvroot"]:
            d[a.lower()] = b
        d["__type__"] = obj["t"]
        return d
    d["__type__"] = obj["t"]
    for it in obj["items"]:
        kind = it[0]
        if kind == "obj":
            ct = it[1]["t"]
            child = _obj(it[1])
            if ct in SINGLETON:
                d[ct] = child
            else:
                d.setdefault(plural(ct), []).append(child)
        elif kind == "attr":
            _, k, cls, v = it
            d[k] = _value(cls, v)
        elif kind == "kv":
            dd = OrderedDict()
            for a, b in it[2]:
                dd[a.lower()] = b
            dd["__type__"] = it[1]
            d[it[1]] = dd
        elif kind == "config":
            d.setdefault("config", OrderedDict())[it[1].lower()] = it[2]
        elif kind == "proj":
            d["projection"] = [it[1]] if isinstance(it[1], str) else list(it[1])
        elif kind == "pairs":
            k, pairs = it[1], [list(p) for p in it[2]]
            if k == "points" and "points" in d:
                cur = d["points"]
                if _depth(cur) == 2:
                    d["points"] = cur = [cur]
                cur.append(pairs)
            else:
                d[k] = pairs
        elif kind == "rep":
            d.setdefault(it[1], []).append(it[2])
    return d


def _depth(x):
    return isinstance(x, (list, tuple)) and (max(map(_depth, x)) if x else 0) + 1


def _value(cls, v):
    if cls == "hex":
        return v.lower()
    if cls == "hexpair":
        return [x.lower() for x in v]
    if cls == "expr":
        return Expr(v["tree"], v["src"])
    if cls == "listx":
        return ListX(v)
    if cls in ("nums", "binds", "mixed"):
        return list(v)
    return v


HIDDEN = ("__position__", "__comments__")


def compare(exp, act, path="", out=None, hidden_ok=HIDDEN, type_pos_strict=False):
    """Structural walk: key sequence, value type (int/float/bool/str distinguished, tuple==list)
    and value.  -> list of (locus, message)."""
    out = [] if out is None else out
    if isinstance(exp, Expr):
        for m in exprs.check_normalised(exp.tree, act):
            out.append((path, m))
        return out
    if isinstance(exp, ListX):
        ok = isinstance(act, str) and act.strip().startswith("{") and act.strip().endswith("}") and \
            [x.strip() for x in act.strip()[1:-1].split(",")] == exp.elements
        if not ok:
            out.append((path, f"list expression {exp.src!r} loaded as {act!r}"))
        return out
    if isinstance(exp, dict):
        if not isinstance(act, dict):
            out.append((path, f"expected a block/dict, got {type(act).__name__}: {act!r:.80}"))
            return out
        ek = [k for k in exp.keys() if k != "__type__"]
        ak = [k for k in act.keys() if k != "__type__" and k not in hidden_ok]
        if exp.get("__type__") != act.get("__type__"):
            out.append((path + "/__type__", f"expected __type__ {exp.get('__type__')!r}, got {act.get('__type__')!r}"))
        if ek != ak:
            out.append((path, f"key sequence differs: expected {ek}, got {ak}"))
        for k in ek:
            if k in act:
                compare(exp[k], act[k], path + "/" + k, out, hidden_ok)
        return out
    if isinstance(exp, (list, tuple)):
        if not isinstance(act, (list, tuple)):
            out.append((path, f"expected a list, got {type(act).__name__}: {act!r:.80}"))
            return out
        if len(exp) != len(act):
            out.append((path, f"list length differs: expected {len(exp)}, got {len(act)}"))
        for i, (e, a) in enumerate(zip(exp, act)):
            compare(e, a, f"{path}[{i}]", out, hidden_ok)
        return out
    if type(exp) is not type(act):
        out.append((path, f"type differs: expected {type(exp).__name__} {exp!r}, got {type(act).__name__} {act!r}"))
    elif exp != act:
        out.append((path, f"value differs: expected {exp!r}, got {act!r}"))
    return out


def equal_dicts(a, b, path="", out=None, ignore=()):
    """Exact equality walk between two loads() results (keys, order, types, values)."""
    out = [] if out is None else out
    if isinstance(a, dict) and isinstance(b, dict):
        ka = [k for k in a.keys() if k not in ignore]
        kb = [k for k in b.keys() if k not in ignore]
        if ka != kb:
            out.append((path, f"key sequence differs: {ka} vs {kb}"))
        for k in ka:
            if k in b:
                equal_dicts(a[k], b[k], path + "/" + str(k), out, ignore)
        return out
    if isinstance(a, (list, tuple)) and isinstance(b, (list, tuple)):
        if len(a) != len(b):
            out.append((path, f"list length differs: {len(a)} vs {len(b)}"))
        for i, (x, y) in enumerate(zip(a, b)):
            equal_dicts(x, y, f"{path}[{i}]", out, ignore)
        return out
    if type(a) is not type(b) and not (isinstance(a, (list, tuple)) and isinstance(b, (list, tuple))):
        out.append((path, f"type differs: {type(a).__name__} {a!r:.60} vs {type(b).__name__} {b!r:.60}"))
    elif a != b:
        out.append((path, f"value differs: {a!r:.80} vs {b!r:.80}"))
    return out


def snapshot(x):
    """Identity-free structural serialisation (key order, types, content)."""
    if isinstance(x, dict):
        return ("D", type(x).__name__, tuple((k, snapshot(v)) for k, v in x.items()))
    if isinstance(x, (list, tuple)):
        return ("L" if isinstance(x, list) else "T", tuple(snapshot(v) for v in x))
    return (type(x).__name__, x)


def strip_hidden(x, names=HIDDEN):
    if isinstance(x, dict):
        return OrderedDict((k, strip_hidden(v, names)) for k, v in x.items() if k not in names)
    if isinstance(x, (list, tuple)):
        return [strip_hidden(v, names) for v in x]
    return x
