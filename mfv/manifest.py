"""Writes /verif/MANIFEST.json from the table below:  python -m mfv.manifest"""
import json
import os

from .env import VERIF

GUARD = "MAPPYFILE_VERIF"

CHECKS = {}  # id -> dict(text=..., note=..., technique=..., design=...)


def check(pid, text, note, technique, design):
    CHECKS[pid] = dict(text=text, note=note, technique=technique, design=design)


TRUST = ("Trusted base: CPython, Lark, Hypothesis, and the harness's own vocabulary loader / renderer / reference "
         "dictionary / reader / scanner, which are written from the documentation and MapServer's syntax and share no "
         "code with mappyfile. Exploration never establishes absence outside the enumerated parts.")

check("C02",
      "Generated-input search: Hypothesis-drawn document models over the whole schema vocabulary are written by an "
      "independent renderer (canonical and random surface) and loads() is compared with a reference dictionary built "
      "from the model. Exploration is the right level: the input space is unbounded, the oracle is exact.",
      TRUST, "property-based testing: schema-driven generator + independent renderer, reference-model oracle (Hypothesis)",
      "DESIGN.md section 4, C02")

DOC = "Generated-input search with Hypothesis over schema-driven document models and the shipped corpus; "
for pid, text, tech in [
    ("C01", DOC + "oracle: parse -> print -> parse round trip with exactly the two licences of the statement decided from the schema slot.",
     "property-based testing: round-trip oracle over generated documents and corpus (Hypothesis)"),
    ("C04", DOC + "oracle: second formatting pass is byte-identical, content identical, fresh printer / second interpreter give the same bytes.",
     "property-based testing: idempotence / determinism oracle over documents x option sets (Hypothesis)"),
    ("C05", DOC + "oracle: metamorphic - canonical vs drawn surface rendering of one model, and perturbed corpus files, load to equal dictionaries.",
     "property-based testing: metamorphic relation over surface renderings (Hypothesis)"),
    ("C06", DOC + "oracle: metamorphic - every option set loads to the default formatting's dictionary; grouping rule for separate_complex_types; full cross product in the thorough tier.",
     "property-based testing: metamorphic relation over the formatter option product (Hypothesis + enumeration)"),
    ("C10", "Exhaustive enumeration of all well-typed expression trees up to 3/4 operators plus Hypothesis-drawn larger trees with every operator spelling, operand kind and redundant parenthesisation; oracle: an independent precedence-climbing reference parser re-reads the normalised string and must obtain the same tree, independent reader checks the printed form, fixed point on re-parse.",
     "property-based testing: reference parser oracle; exhaustive small trees + Hypothesis random trees"),
    ("C11", "Generated-input search: Hypothesis-drawn token-level mutations of corpus files and generated documents, token soups over the whole vocabulary, a fixed family of unterminated constructs / every block type at the root / malformed INCLUDE lines / nesting at the stated bounds, a CPU-time growth-exponent measurement on long repetitive inputs, and short unterminated repetitive inputs loaded in a forked child under a kernel CPU limit; include_comments / include_position drawn; oracle: outcome is a dict / list of dicts or a LarkError with a position inside the text (OSError only with an INCLUDE line).",
     "fuzzing / property-based testing: mutation + token-soup generators with an outcome-classification oracle (Hypothesis; atheris in the thorough tier)"),
    ("C19", "Complete enumeration of the finite vocabulary product (block type x parent context x schema property x position x value alternative x representative value) as minimal document models, plus all parent/child edges, all declared defaults, create(type, version) over all schema files x 26 versions, and every interleaving ABA / ABAB / AABA of two child types under every parent; oracle: reference dictionary, printer log records, round trip, validation messages.",
     "exhaustive enumeration of a finite configuration product with a reference-model oracle"),
    ("C07", "Exhaustive single-fault sweep over every keyword slot x fault kind x context, plus generated-input search: Hypothesis-drawn schema-valid documents of every root type with 0-2 injected faults at drawn depths and list indexes (each fault confirmed invalid by the Draft-4 evaluator), plus arbitrary generated documents; oracles: by-construction expectation of the named messages, differential against jsonschema Draft 4 over the harness's own inlined schema copy, never-raises, metamorphic relations (value case, hidden keys, key case, list of roots, add_comments=True).",
     "property-based testing: fault injection with by-construction and differential (reference evaluator) oracles, metamorphic relations (Hypothesis)"),
    ("C08", "Generated-input search: the independent renderer knows the line and column of every token it writes under a Hypothesis-drawn surface; recorded positions of objects, keywords and values are compared with them, messages for injected faults must carry the offending keyword's / enclosing opener's position, and an exhaustive sweep plants an object-level fault in the innermost block of every parent chain.",
     "property-based testing: renderer-known ground truth for positions + fault injection (Hypothesis)"),
    ("C09", "Complete enumeration of annotated entry x versions around each bound x parent chain x root schema with an independent deep pruner + Draft-4 evaluation as the oracle, a Hypothesis rule-based state machine over one Validator object and the module API compared with fresh Validators, and the command line (--version) compared with the API.",
     "exhaustive enumeration with a reference pruner oracle + Hypothesis stateful machine (history independence)"),
    ("C13", DOC + "oracle: metamorphic - the four include_position x include_comments combinations through loads / load / open give the plain dictionary once hidden keys are removed; position-only dictionaries print byte-identically; dictionaries with comments print the same event stream once the independent reader drops comments.",
     "property-based testing: metamorphic relation over bookkeeping flags and entry points (Hypothesis)"),
    ("C14", "Generated-input search: Hypothesis-drawn documents written one keyword per line with unique comments at claimed and unclaimed placements, and corpus files with their own comments (independent scanner cross-checked against the lexer callback); oracle: multiset verbatim/no-duplication check with backtracking, content equality with the comment-free pipeline, placement predicates on a comment-blanked copy of the output.",
     "property-based testing: independent comment scanner, multiset and placement oracles (Hypothesis)"),
    ("C03", "Generated-input search over dictionaries (loaded, built through the dict API, created) and, with a Hypothesis rule-based state machine, over histories of dict-API edits; oracle: an independent character-level reader of the printed text whose event stream must equal the events and MapServer lexical classes derived from the dictionary and the schema slot of each value; mappyfile's parser is never used.",
     "property-based / model-based testing: independent reader oracle, Hypothesis stateful machine for edit histories"),
    ("C15", "Generated-input search: Hypothesis cuts generated documents into include trees (fan-out, depth 0..7, sub-directories, relative / absolute paths, quoting, comments, CRLF) on the real file system and loads them through open / load / loads from differing working directories; oracle: the harness's own textual substitution, error expectations for depth >= 6 / cycles / missing files with file opens counted by an audit hook, write-back of unexpanded directives, and a reload phase (the same paths rewritten or one file removed, loaded again).",
     "property-based testing: differential against textual substitution over generated file trees (Hypothesis)"),
    ("C20", "Generated-input search: Unicode documents through open / load / loads / save / dump / dumps on real files and streams, and the mappyfile command run as real subprocesses over drawn file sets and options; oracle: differential between front ends, string survival, in-process API results as the expectation for CLI output bytes, stdout lines and exit status (boundaries 255 / 256 / 257 always exercised).",
     "property-based testing: differential between front ends, subprocess CLI against in-process API (Hypothesis)"),
    ("C12", "Generated-input search: structural snapshots of every argument before / after each public call (purity), a Hypothesis rule-based state machine reusing one Parser / MapfileToDict / PrettyPrinter / Validator across documents, failing inputs, flags and versions compared with fresh objects (history independence), 16-thread stress of the module-level API under a 1 microsecond switch interval compared with sequential results, and Hypothesis-drawn histories of module-level calls (loads / dumps / validate / save + open on rewritten paths) compared with history-free worker objects.",
     "property-based testing: snapshot oracle, Hypothesis stateful machine (differential reused vs fresh), thread stress vs sequential"),
    ("C16", DOC + "oracle: an independent reader of the printed text checks the layout contract line by line.",
     "property-based testing: independent reader / validity predicate over documents x option sets (Hypothesis)"),
    ("C17", "Exhaustive breadth-first exploration of every reachable state over a small key/value alphabet with every operation applied in every state, exhaustive operation sequences from the empty dict up to a length bound, a Hypothesis rule-based state machine for long histories, and copy / deepcopy / pickle of generated loaded documents; oracle: reference model (OrderedDict keyed by lower-cased keys + default rule), id-disjointness of all reachable containers after deepcopy.",
     "model-based testing: exhaustive small-scope enumeration + Hypothesis stateful machine against a reference dict"),
    ("C18", "Generated-input search: Hypothesis draws nested dictionaries and type-compatible patches / search lists; oracle: reference implementation of the documented update / find laws, identity and immutability checks.",
     "property-based testing: reference-implementation oracle (Hypothesis)"),
]:
    check(pid, text, TRUST, tech, "DESIGN.md section 4, " + pid)

NOT_YET = {}


def build():
    ids = [f"C{i:02d}" for i in range(1, 21)]
    checks = []
    for pid in ids:
        if pid not in CHECKS:
            continue
        c = CHECKS[pid]
        checks.append({
            "property_id": pid,
            "quick_cmd": f"./check {pid} quick",
            "thorough_cmd": f"./check {pid} thorough",
            "evidence_file": f"evidence/{pid}.json",
            "replay_cmd_template": f"./check {pid} --replay {{path}}",
            "engine": "mfv",
            "level_claimed": {"category": "exploration", "text": c["text"], "design_ref": c["design"]},
            "level_note": c["note"],
            "technique": c["technique"],
        })
    na = [{"property_id": pid, "reason": NOT_YET.get(pid, "check not built yet in this revision of /verif (planned, see DESIGN.md section 4); not a statement that the technique cannot apply")}
          for pid in ids if pid not in CHECKS]
    m = {
        "version": 1,
        "setup_cmd": "/venv/bin/pip install --no-index --find-links /opt/veriftools/wheels hypothesis >/dev/null 2>&1; "
                     "/venv/bin/pip install --no-index --find-links /opt/veriftools/wheels --target /verif/.deps atheris >/dev/null 2>&1; "
                     "/venv/bin/python -c 'import hypothesis, lark, jsonschema, jsonref'",
        "hooks": {
            "guard": GUARD,
            "enable": "no hooks are needed: every observation is a return value, file, exit status, log record or exception; "
                      "checks import mappyfile from /repo's working tree (MFV_REPO overrides the path)",
            "baseline_off_cmd": "cd /repo && /venv/bin/python -m pytest -ra -q -p no:cacheprovider --timeout=900 --continue-on-collection-errors",
            "source_commits": [],
            "add_only": True,
        },
        "engines": [{"name": "mfv", "path": "mfv/", "serves_properties": sorted(CHECKS),
                     "kind_free_text": "property-based testing / fuzzing framework (Hypothesis strategies over a schema-derived "
                                       "vocabulary, independent renderer / reader / reference models, exhaustive finite products, atheris)"}],
        "checks": checks,
        "not_applicable": na,
        "notes": "All checks: ./check <ID> quick|thorough ; exit 0 held, exit 1 + VIOLATION line, exit 2 harness error. "
                 "known_findings.json lists genuine defects (open: reported as KNOWN-FINDING and avoided by construction; "
                 "fixed: replayed as regression cases).",
    }
    with open(os.path.join(VERIF, "MANIFEST.json"), "w") as f:
        json.dump(m, f, indent=1)
    return m


if __name__ == "__main__":
    m = build()
    print(len(m["checks"]), "checks;", len(m["not_applicable"]), "not yet claimed")
