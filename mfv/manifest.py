"""Writes /verif/MANIFEST.json from the table below:  python -m mfv.manifest"""
import json
import os

from .env import VERIF

GUARD = "MAPPYFILE_VERIF"

CHECKS = {}  # id -> dict(text=..., note=..., technique=..., design=...)


def check(pid, text, note, technique, design):
    CHECKS[pid] = dict(text=text, note=note, technique=technique, design=design)


TRUST = ("Trusted base: CPython, Lark, Hypothesis, and the harness's own vocabulary loader / renderer / reference "
         "dictionary / reader / scanner, which are written from the documentation and MapServer's syntax and share no "
         "code with mappyfile. Exploration never establishes absence outside the enumerated parts.")

check("C02",
      "Generated-input search: Hypothesis-drawn document models over the whole schema vocabulary are written by an "
      "independent renderer (canonical and random surface) and loads() is compared with a reference dictionary built "
      "from the model. Exploration is the right level: the input space is unbounded, the oracle is exact.",
      TRUST, "property-based testing: schema-driven generator + independent renderer, reference-model oracle (Hypothesis)",
      "DESIGN.md section 4, C02")

NOT_YET = {}


def build():
    ids = [f"C{i:02d}" for i in range(1, 21)]
    checks = []
    for pid in ids:
        if pid not in CHECKS:
            continue
        c = CHECKS[pid]
        checks.append({
            "property_id": pid,
            "quick_cmd": f"./check {pid} quick",
            "thorough_cmd": f"./check {pid} thorough",
            "evidence_file": f"evidence/{pid}.json",
            "replay_cmd_template": f"./check {pid} --replay {{path}}",
            "engine": "mfv",
            "level_claimed": {"category": "exploration", "text": c["text"], "design_ref": c["design"]},
            "level_note": c["note"],
            "technique": c["technique"],
        })
    na = [{"property_id": pid, "reason": NOT_YET.get(pid, "check not built yet in this revision of /verif (planned, see DESIGN.md section 4); not a statement that the technique cannot apply")}
          for pid in ids if pid not in CHECKS]
    m = {
        "version": 1,
        "setup_cmd": "/venv/bin/pip install --no-index --find-links /opt/veriftools/wheels hypothesis >/dev/null 2>&1; "
                     "/venv/bin/pip install --no-index --find-links /opt/veriftools/wheels --target /verif/.deps atheris >/dev/null 2>&1; "
                     "/venv/bin/python -c 'import hypothesis, lark, jsonschema, jsonref'",
        "hooks": {
            "guard": GUARD,
            "enable": "no hooks are needed: every observation is a return value, file, exit status, log record or exception; "
                      "checks import mappyfile from /repo's working tree (MFV_REPO overrides the path)",
            "baseline_off_cmd": "cd /repo && /venv/bin/python -m pytest -ra -q -p no:cacheprovider --timeout=900 --continue-on-collection-errors",
            "source_commits": [],
            "add_only": True,
        },
        "engines": [{"name": "mfv", "path": "mfv/", "serves_properties": sorted(CHECKS),
                     "kind_free_text": "property-based testing / fuzzing framework (Hypothesis strategies over a schema-derived "
                                       "vocabulary, independent renderer / reader / reference models, exhaustive finite products, atheris)"}],
        "checks": checks,
        "not_applicable": na,
        "notes": "All checks: ./check <ID> quick|thorough ; exit 0 held, exit 1 + VIOLATION line, exit 2 harness error. "
                 "known_findings.json lists genuine defects (open: reported as KNOWN-FINDING and avoided by construction; "
                 "fixed: replayed as regression cases).",
    }
    with open(os.path.join(VERIF, "MANIFEST.json"), "w") as f:
        json.dump(m, f, indent=1)
    return m


if __name__ == "__main__":
    m = build()
    print(len(m["checks"]), "checks;", len(m["not_applicable"]), "not yet claimed")
