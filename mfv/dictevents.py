"""Expected reader events for a Mapfile dictionary, from the documented dict model
(docs/transformer.rst): what a reader of the printed text must see, in order."""
from __future__ import annotations

from .reader import KV

REPEATED = ("processing", "formatoption", "include", "compfilter")


def hidden(k):
    return isinstance(k, str) and k.startswith("__") and k.endswith("__")


def is_objlist(v):
    return isinstance(v, (list, tuple)) and len(v) > 0 and all(isinstance(x, dict) and "__type__" in x for x in v)


def nested_points(v):
    return bool(v) and isinstance(v[0], (list, tuple)) and bool(v[0]) and isinstance(v[0][0], (list, tuple))


def dict_events(d, out=None):
    """-> list of tuples: ('open', word) ('close', word) ('attr', key, value, type) ('pair', k, v)
    ('config', k, v) ('proj', s) ('numpair', a, b)"""
    out = [] if out is None else out
    roots = d if isinstance(d, list) else [d]
    for r in roots:
        _obj(r, out)
    return out


def _kv(name, v, out):
    out.append(("open", name))
    for a, b in v.items():
        if not hidden(a):
            out.append(("pair", a, b))
    out.append(("close", name))


def _obj(d, out):
    typ = d["__type__"]
    if typ in KV:
        _kv(typ, d, out)
        return
    out.append(("open", typ))
    for k, v in d.items():
        if hidden(k):
            continue
        if isinstance(v, dict) and (k in KV or v.get("__type__") in KV):
            _kv(k, v, out)
        elif isinstance(v, dict) and "__type__" in v:
            _obj(v, out)
        elif is_objlist(v):
            for c in v:
                _obj(c, out)
        elif isinstance(v, (list, tuple)) and not v and _objlist_key(typ, k):
            pass  # an empty list of child objects: nothing to write
        elif k == "config" and isinstance(v, dict):
            for a, b in v.items():
                out.append(("config", a, b))
        elif k == "projection":
            out.append(("open", "projection"))
            for s in ([v] if isinstance(v, str) else v):
                out.append(("proj", s))
            out.append(("close", "projection"))
        elif k in ("points", "pattern") and isinstance(v, (list, tuple)):
            parts = v if (k == "points" and nested_points(v)) else [v]
            for part in parts:
                out.append(("open", k))
                for a, b in part:
                    out.append(("numpair", float(a), float(b)))
                out.append(("close", k))
        elif k in REPEATED and isinstance(v, (list, tuple)):
            for s in v:
                out.append(("attr", k, s, typ))
        else:
            out.append(("attr", k, v, typ))
    out.append(("close", typ))


def _objlist_key(typ, k):
    from . import vocab

    try:
        slot = vocab.slots(typ).get(k)
    except Exception:
        return False
    return slot is not None and any(a.shape == "objlist" for a in slot.alts)
