"""Independent comment scanner for arbitrary Mapfile text (DESIGN 3.5): finds # and /* */
comments, skipping quoted and back-quoted strings.  Shares no code with mappyfile / Lark."""
from __future__ import annotations


class Comment:
    __slots__ = ("text", "raw", "line", "col", "off", "end_line")

    def __init__(self, raw, line, col, off):
        self.raw = raw
        self.text = raw.strip()
        self.line, self.col, self.off = line, col, off
        self.end_line = line + raw.count("\n")

    def __repr__(self):
        return f"Comment({self.text!r}@{self.line})"


def scan(text):
    out = []
    i, n = 0, len(text)
    line, col = 1, 1

    def adv(j):
        nonlocal i, line, col
        seg = text[i:j]
        k = seg.count("\n")
        if k:
            line += k
            col = len(seg) - seg.rfind("\n")
        else:
            col += len(seg)
        i = j

    while i < n:
        c = text[i]
        if c in "\"'":
            j = i + 1
            while j < n:
                if text[j] == "\\" and j + 1 < n and text[j + 1] == c:
                    j += 2
                    continue
                if text[j] == c:
                    break
                j += 1
            adv(min(j + 1, n))
            continue
        if c == "`":
            j = text.find("`", i + 1)
            adv(j + 1 if j >= 0 else n)
            continue
        if c == "{":
            # a list expression {a,it's,b}: its items are literal text (an apostrophe or # in an item opens nothing)
            j = text.find("}", i + 1)
            k = text.find("\n", i + 1)
            if j >= 0 and (k < 0 or j < k):
                adv(j + 1)
                continue
        if c == "#":
            j = text.find("\n", i)
            j = n if j < 0 else j
            out.append(Comment(text[i:j], line, col, i))
            adv(j)
            continue
        if c == "/" and text.startswith("/*", i):
            j = text.find("*/", i + 2)
            j = n if j < 0 else j + 2
            out.append(Comment(text[i:j], line, col, i))
            adv(j)
            continue
        adv(i + 1)
    return out


def decomposable(o, avail):
    """Can output comment text o be written as the single-space join of source comments from the
    multiset avail (consuming them)?  Backtracking."""
    if avail.get(o, 0) > 0:
        avail[o] -= 1
        return True
    for c in list(avail):
        if avail[c] > 0 and o.startswith(c + " "):
            avail[c] -= 1
            if decomposable(o[len(c) + 1:], avail):
                return True
            avail[c] += 1
    return False
