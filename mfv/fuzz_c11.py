#!/venv/bin/python
"""atheris / libFuzzer campaign for C11 (thorough tier).

Bytes are decoded into a token sequence over the Mapfile vocabulary (so the fuzzer
reaches the parser and transformer instead of dying in the lexer); the oracle of
mfv.props.c11.classify runs inside the target; outcomes other than "dict / LarkError /
OSError-with-INCLUDE" are bucketed and written to the findings directory instead of
aborting, so the campaign continues past the first bucket.

usage: fuzz_c11.py <findings_dir> [libFuzzer args...]"""
import json
import os
import sys

HERE = os.path.dirname(os.path.dirname(os.path.abspath(__file__)))
sys.path.insert(0, HERE)
deps = os.path.join(HERE, ".deps")
if os.path.isdir(deps):
    sys.path.insert(0, deps)

import atheris  # noqa: E402

from mfv import env  # noqa: E402  (puts MFV_REPO on sys.path)

with atheris.instrument_imports(include=["mappyfile"]):
    import mappyfile  # noqa: F401,E402
    import mappyfile.parser  # noqa: F401,E402
    import mappyfile.transformer  # noqa: F401,E402

from mfv.props import c11  # noqa: E402

FINDINGS = sys.argv[1]
os.makedirs(FINDINGS, exist_ok=True)
VOCAB = c11.soup_vocab()
SEPS = [" ", "\n", "", "\t", "\r\n"]
seen = set()
stats = {"n": 0, "accepted": 0, "rejected": 0}


def _bases():
    from mfv import corpus

    out = []
    for p in sorted(corpus.files(), key=os.path.getsize)[:120]:
        try:
            t = corpus.read(p)
        except Exception:
            continue
        if len(t) < 2500:
            out.append(c11.split_tokens(t))
    return out


BASES = _bases()


def decode(data):
    fdp = atheris.FuzzedDataProvider(data)
    if BASES and fdp.ConsumeBool():
        # mode 1: a small corpus file with up to 6 token-level edits (coverage-guided mutation around valid input)
        toks = list(BASES[fdp.ConsumeIntInRange(0, len(BASES) - 1)])
        for _ in range(fdp.ConsumeIntInRange(0, 6)):
            if not toks:
                break
            i = fdp.ConsumeIntInRange(0, len(toks) - 1)
            op = fdp.ConsumeIntInRange(0, 4)
            if op == 0:
                del toks[i]
            elif op == 1:
                toks.insert(i, toks[i])
            elif op == 2:
                toks[i] = VOCAB[fdp.ConsumeIntInRange(0, len(VOCAB) - 1)]
            elif op == 3:
                toks[i:i] = [VOCAB[fdp.ConsumeIntInRange(0, len(VOCAB) - 1)], " "]
            else:
                toks = toks[:i]
        return "".join(toks)
    n = fdp.ConsumeIntInRange(0, 48)
    out = []
    for _ in range(n):
        k = fdp.ConsumeIntInRange(0, len(VOCAB) + 7)
        if k < len(VOCAB):
            out.append(VOCAB[k])
        else:
            out.append(fdp.ConsumeUnicodeNoSurrogates(fdp.ConsumeIntInRange(0, 12)))
        out.append(SEPS[fdp.ConsumeIntInRange(0, len(SEPS) - 1)])
    return "".join(out)


def TestOneInput(data):
    text = decode(data)
    if not c11.within_bounds(text):
        return
    stats["n"] += 1
    label, msg = c11.classify(text, expand=True)
    if label == "accepted":
        stats["accepted"] += 1
    else:
        stats["rejected"] += 1
    if msg and label not in seen:
        seen.add(label)
        with open(os.path.join(FINDINGS, "finding_%d.json" % len(seen)), "w", encoding="utf-8") as f:
            json.dump({"bucket": label, "message": msg, "case": {"text": text, "expand": True}}, f, ensure_ascii=True)
    if stats["n"] % 500 == 0:
        with open(os.path.join(FINDINGS, "stats.json"), "w") as f:
            json.dump(stats, f)


def main():
    c11.enter_empty_cwd()
    atheris.Setup([sys.argv[0]] + sys.argv[2:], TestOneInput)
    atheris.Fuzz()


if __name__ == "__main__":
    main()
