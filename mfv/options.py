"""Formatter option sets (DESIGN 3.7)."""
from __future__ import annotations

import itertools

INDENTS = list(range(0, 9))
SPACERS = [" ", "\t"]
QUOTES = ['"', "'"]
NEWLINES = ["\n", "\r\n", " "]
DEFAULT = dict(indent=4, spacer=" ", quote='"', newlinechar="\n", end_comment=False, align_values=False,
               separate_complex_types=False)


def admissible(o, has_comments=False):
    if o["newlinechar"] == " " and (o["end_comment"] or has_comments):
        return False  # a '#' would swallow the rest of the single line
    return True


def all_sets(quotes=QUOTES, linebreak_only=False, has_comments=False):
    out = []
    for ind, sp, q, nl, ec, al, sc in itertools.product(INDENTS, SPACERS, quotes, NEWLINES, (False, True), (False, True), (False, True)):
        o = dict(indent=ind, spacer=sp, quote=q, newlinechar=nl, end_comment=ec, align_values=al, separate_complex_types=sc)
        if linebreak_only and nl == " ":
            continue
        if admissible(o, has_comments):
            out.append(o)
    return out


def draw(ch, quotes=QUOTES, linebreak_only=False, has_comments=False, separate=True):
    nls = NEWLINES[:2] if linebreak_only else NEWLINES
    o = dict(indent=ch.choice(INDENTS), spacer=ch.choice(SPACERS), quote=ch.choice(quotes), newlinechar=ch.choice(nls),
             end_comment=ch.bool(), align_values=ch.bool(), separate_complex_types=ch.bool() if separate else False)
    if not admissible(o, has_comments):
        o["newlinechar"] = "\n"
    return o


def n_diff(o):
    return sum(1 for k, v in DEFAULT.items() if o.get(k, v) != v)


def usable_quotes(strings):
    return [q for q in QUOTES if not any(q in s for s in strings)]
