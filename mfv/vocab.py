"""Vocabulary: the JSON schemas read independently of mappyfile.validator.

Own $ref inliner (Draft-4 semantics: a $ref replaces its node, siblings are ignored
for validation; we keep the siblings only to find `metadata` version annotations and
`default`s, which is what mappyfile itself reads from them).
Flattens every property of every object schema into keyword slots with value-shape
alternatives."""
from __future__ import annotations

import copy
import json
import os
from functools import lru_cache

from .env import SCHEMAS

OBJ_TYPES = (
    "map layer class style label symbol web legend scalebar querymap reference "
    "outputformat cluster composite feature grid join leader scaletoken"
).split()
KV_FILES = {"metadata.json": "metadata", "validation.json": "validation",
            "connectionoptions.json": "connectionoptions"}
REPEATED = ("processing", "formatoption", "include", "compfilter")

PAT_HEX = "^#("
PAT_BIND = "^\\[(.*?)\\]$"
PAT_EXPR = "^\\((.*?)\\)$"
PAT_REGEX = "^/(.*?)/$"


@lru_cache(maxsize=None)
def raw(name: str) -> dict:
    if not name.endswith(".json"):
        name += ".json"
    with open(os.path.join(SCHEMAS, name), encoding="utf-8") as f:
        return json.load(f)


def schema_files():
    return sorted(f for f in os.listdir(SCHEMAS) if f.endswith(".json"))


def inline(node, depth=0):
    """Fully inlined copy of a schema node; each node that came from a $ref gets
    '__ref__': file name.  Object-type refs are cut below depth to keep it finite."""
    if isinstance(node, list):
        return [inline(n, depth) for n in node]
    if not isinstance(node, dict):
        return node
    if "$ref" in node:
        tgt = inline(copy.deepcopy(raw(node["$ref"])), depth + 1) if depth < 12 else {}
        tgt = dict(tgt)
        tgt["__ref__"] = node["$ref"]
        # siblings of $ref: inert for validation, kept for annotations
        sib = {k: v for k, v in node.items() if k != "$ref"}
        if sib:
            tgt["__siblings__"] = sib
        return tgt
    return {k: inline(v, depth) for k, v in node.items()}


def draft4_schema(name: str) -> dict:
    """Inlined schema for jsonschema.Draft4Validator (no private keys)."""

    def strip(n):
        if isinstance(n, list):
            return [strip(x) for x in n]
        if isinstance(n, dict):
            return {k: strip(v) for k, v in n.items() if k not in ("__ref__", "__siblings__")}
        return n

    return strip(inline(copy.deepcopy(raw(name))))


class Alt:
    """One value alternative of a keyword slot."""

    __slots__ = ("shape", "node", "ref", "meta", "extra", "arg")

    def __init__(self, shape, node, ref, meta, extra, arg=None):
        self.shape, self.node, self.ref, self.meta, self.extra, self.arg = shape, node, ref, meta, extra, arg

    def __repr__(self):
        return f"Alt({self.shape},{self.arg},meta={self.meta})"

    def bounds(self, node=None):
        """(lo, hi, lo_excl, hi_excl) honouring constraints written beside oneOf/anyOf,
        chosen valid under both Draft-4 and numeric-exclusive readings."""
        lo = hi = None
        lo_x = hi_x = False
        for n in (node if node is not None else self.node, self.extra):
            if not n:
                continue
            if "minimum" in n:
                lo = n["minimum"] if lo is None else max(lo, n["minimum"])
                if n.get("exclusiveMinimum") is True:
                    lo_x = True
            if "maximum" in n:
                hi = n["maximum"] if hi is None else min(hi, n["maximum"])
                if n.get("exclusiveMaximum") is True:
                    hi_x = True
            em = n.get("exclusiveMinimum")
            if em is not None and not isinstance(em, bool):
                # numeric exclusiveMinimum: inert in Draft 4; stay above it anyway
                if lo is None or em >= lo:
                    lo, lo_x = em, True
            eM = n.get("exclusiveMaximum")
            if eM is not None and not isinstance(eM, bool):
                if hi is None or eM <= hi:
                    hi, hi_x = eM, True
        return lo, hi, lo_x, hi_x


class Slot:
    __slots__ = ("type", "key", "node", "alts", "meta", "default", "has_default")

    def __init__(self, type_, key, node):
        self.type, self.key, self.node = type_, key, node
        self.meta = _meta(node)
        self.has_default = "default" in node or "default" in node.get("__siblings__", {})
        self.default = node.get("default", node.get("__siblings__", {}).get("default"))
        self.alts = []
        _alts(node, None, None, {}, self.alts)

    def __repr__(self):
        return f"Slot({self.type}.{self.key}: {self.alts})"

    @property
    def is_multi(self):
        """keyword whose schema offers several alternatives (oneOf/anyOf/expression.json)"""
        return len(self.alts) > 1

    def shapes(self):
        return [a.shape for a in self.alts]

    def block_child(self):
        for a in self.alts:
            if a.shape in ("object", "objlist"):
                return a
        return None


def _meta(node):
    m = {}
    for src in (node.get("__siblings__", {}), node):
        md = src.get("metadata")
        if isinstance(md, dict):
            for k in ("minVersion", "maxVersion"):
                if k in md:
                    m[k] = md[k]
    return m


def _merge_meta(a, b):
    if not a:
        return dict(b)
    m = dict(a)
    if "minVersion" in b:
        m["minVersion"] = max(m.get("minVersion", b["minVersion"]), b["minVersion"])
    if "maxVersion" in b:
        m["maxVersion"] = min(m.get("maxVersion", b["maxVersion"]), b["maxVersion"])
    return m


_NUMK = ("minimum", "maximum", "exclusiveMinimum", "exclusiveMaximum")


def _alts(node, ref, meta, extra, out, top=True):
    ref = node.get("__ref__", ref)
    m = meta if top else _merge_meta(meta or {}, _meta(node))
    if top:
        m = {}
    combs = [c for c in ("oneOf", "anyOf", "allOf") if c in node]
    if combs:
        ex = dict(extra)
        ex.update({k: node[k] for k in _NUMK if k in node})
        for c in combs:
            for sub in node[c]:
                _alts(sub, ref, m, ex, out, top=False)
        return
    shape, arg = _shape(node, ref)
    out.append(Alt(shape, node, ref, m, extra, arg))


def _shape(node, ref):
    r = (ref or "")
    rn = r[:-5] if r.endswith(".json") else r
    t = node.get("type")
    if rn in OBJ_TYPES and t == "object":
        return "object", rn
    if r in KV_FILES:
        return "kv", KV_FILES[r]
    if "enum" in node:
        return "enum", list(node["enum"])
    pat = node.get("pattern")
    if pat is not None:
        if pat.startswith(PAT_HEX):
            return "hex", None
        if pat == PAT_BIND:
            return "bind", None
        if pat == PAT_EXPR:
            return "expr", None
        if pat == PAT_REGEX:
            return "regex", None
        return "strpat", pat
    if t == "string":
        return "string", None
    if t in ("integer", "number"):
        return t, None
    if t == "boolean":
        return "boolean", None
    if t == "object":
        return "kvinline", None  # config / scaletoken values
    if t == "array":
        it = node.get("items")
        if isinstance(it, list):
            shapes = [_shape(i, i.get("__ref__"))[0] for i in it]
            if shapes == ["integer", "bind"]:
                return "mixedpair", None
            if shapes == ["number"]:
                return "anchor", None  # symbol anchorpoint: tuple-typed items, 2 numbers
            return "tuple", shapes
        if it is None:
            return "array", None
        iref = it.get("__ref__", "")
        if iref[:-5] in OBJ_TYPES:
            return "objlist", iref[:-5]
        if iref == "points.json":
            return "pointslist", None
        if it.get("type") == "array":
            return "points", None
        if "oneOf" in it or "anyOf" in it:
            return "offsetpair", None  # style offset / polaroffset: number | binding, twice
        ish, _ = _shape(it, it.get("__ref__"))
        n = node.get("minItems")
        if ish in ("integer", "number"):
            return "numlist", (n if n == node.get("maxItems") else None)
        if ish == "bind":
            return "bindpair", None
        if ish == "string":
            if n is not None and n == node.get("maxItems") == 2:
                return "hexpair", None  # style colorrange "#…" "#…"
            if ref == "projection.json":
                return "projection", None
            return "strlist", None
    return "other", None


@lru_cache(maxsize=None)
def inlined(type_: str) -> dict:
    return inline(copy.deepcopy(raw(type_)))


@lru_cache(maxsize=None)
def slots(type_: str) -> dict:
    """key -> Slot for an object type (hidden __x__ keys excluded)."""
    sch = inlined(type_)
    out = {}
    for k, v in sch.get("properties", {}).items():
        if k.startswith("__"):
            continue
        out[k] = Slot(type_, k, v)
    return out


def all_types():
    return OBJ_TYPES + ["symbolset"]


def required(type_):
    return list(raw(type_).get("required", []))


@lru_cache(maxsize=None)
def child_edges():
    """(parent type, key, child type, is_list) for every block-valued slot."""
    out = []
    for t in all_types():
        for k, s in slots(t).items():
            for a in s.alts:
                if a.shape == "object":
                    out.append((t, k, a.arg, False))
                elif a.shape == "objlist":
                    out.append((t, k, a.arg, True))
    return out


def annotated_entries():
    """All (type, key, alt_index|None, meta) carrying minVersion/maxVersion."""
    out = []
    for t in all_types():
        for k, s in slots(t).items():
            if s.meta:
                out.append((t, k, None, s.meta))
            for i, a in enumerate(s.alts):
                if a.meta:
                    out.append((t, k, i, a.meta))
    return out


@lru_cache(maxsize=None)
def reserved_words():
    """Every case-insensitive literal of the grammar (read from the grammar file)."""
    import re
    from .env import REPO

    txt = open(os.path.join(REPO, "mappyfile", "mapfile.lark"), encoding="utf-8").read()
    txt = "\n".join(l for l in txt.split("\n") if not l.strip().startswith("//"))
    words = set(w.lower() for w in re.findall(r'"([A-Za-z_]+)"i', txt))
    return frozenset(words)


if __name__ == "__main__":
    import collections

    c = collections.Counter()
    n = 0
    for t in all_types():
        for k, s in slots(t).items():
            n += 1
            for a in s.alts:
                c[a.shape] += 1
                if a.shape in ("other", "tuple", "array"):
                    print("??", t, k, a.shape, a.arg, a.node)
    print(n, "slots", sum(c.values()), "alts", len(annotated_entries()), "annotations")
    for k, v in c.most_common():
        print(v, k)
    print(sorted(reserved_words()))
