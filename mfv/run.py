"""CLI:  python -m mfv.run <ID> quick|thorough   |   python -m mfv.run <ID> --replay <path>"""
from __future__ import annotations

import importlib
import os
import sys
import traceback
import warnings


def main(argv):
    warnings.filterwarnings("ignore")
    if len(argv) < 2:
        sys.stderr.write(__doc__ + "\n")
        return 2
    prop = argv[0].upper()
    try:
        from . import env, harness  # noqa

        mod = importlib.import_module(f"mfv.props.{prop.lower()}")
        if argv[1] == "--replay":
            return harness.run_replay(mod, argv[2])
        tier = argv[1]
        if tier not in ("quick", "thorough"):
            sys.stderr.write("tier must be quick or thorough\n")
            return 2
        os.environ["VERIF_TIER"] = tier
        return harness.run_property(mod, tier)
    except SystemExit:
        raise
    except BaseException:
        sys.stderr.write("HARNESS ERROR:\n" + traceback.format_exc())
        return 2


if __name__ == "__main__":
    sys.exit(main(sys.argv[1:]))
