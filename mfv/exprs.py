"""Expression trees, a source renderer, and a reference parser for MapServer's
precedence table (C10).  Shares no code with mappyfile / Lark.

Trees (JSON-able lists):
  ["or",a,b] ["and",a,b] ["not",a] ["cmp",op,a,b] ["bin",op,a,b] ["neg",a]
  ["atom",text] ["func",name,[atoms]]
"""
from __future__ import annotations

import re

CMP_SYM = ["=", "==", "!=", "<", "<=", ">", ">=", "~", "~*", "=*"]
CMP_WORD = ["IN", "EQ", "NE", "LT", "LE", "GT", "GE", "LIKE"]
ARITH1 = ["+", "-"]
ARITH2 = ["*", "/", "^"]
FUNCS = ["tostring", "round", "length", "upper", "lower", "area", "commify", "firstcap", "initcap",
         "toString", "Length", "ROUND", "Upper", "firstCap", "Area"]   # (MapServer matches function names without regard to case; the text keeps the spelling)
BINDS = ["[a]", "[NAME]", "[x_1]", "[pop2000]", "[b]"]
INTS = ["0", "1", "7", "42", "100", "1000000"]
DECS = ["2.5", "0.25", "10.125", "3.0"]
DQ = ['"x"', '"[a]"', '"a b"', '"^r.*"', '"%.2f"', '"it\'s"', '"(p)"', '""']
SQ = ["'x'", "'[a]'", "'y z'", "'A'", "'a)b'"]
BQ = ["`2020-01-01`", "`[d]`", "`2004-01-01T00:00:00`", "`a(`", "`x)`", "`(p)`", "`it's`"]
# unbalanced parentheses / quote characters inside strings: the string builders scan for parentheses
DQ_EXTRA = ['"a("', '")"', '"`"', '"a\x0cb"', '"x\u2028y"', '"n\x85l"', '"t\tab"']   # (+ characters str.splitlines() / strip() treat as breaks)
SQ_EXTRA = ["'('", "'x)'", "'v\x0bt'", "'p\u2029s'"]

AVOID = {"percent": True}
EXCLUDED = {}

PREC = {"or": 1, "and": 2, "not": 3, "cmp": 4, "add": 5, "mul": 6, "neg": 7, "atom": 9, "func": 9}


def level(t):
    if t[0] == "bin":
        return PREC["add"] if t[1] in ARITH1 else PREC["mul"]
    return PREC[t[0]]


# ---------------------------------------------------------------- generation

def gen_atom(ch, allow_func=True):
    k = ch.int(0, 9)
    if k < 4:
        return ["atom", ch.choice(BINDS)]
    if k < 5:
        return ["atom", ch.choice(INTS)]
    if k < 6:
        return ["atom", ch.choice(DECS)]
    if k < 7:
        return ["atom", ch.choice(DQ + DQ_EXTRA)]
    if k < 8:
        return ["atom", ch.choice(SQ + SQ_EXTRA)]
    if k < 9 or not allow_func:
        return ["atom", ch.choice(BQ)]
    n = ch.int(1, 3)
    return ["func", ch.choice(FUNCS), [gen_atom(ch, allow_func=False) for _ in range(n)]]


def gen_arith(ch, d):
    if d <= 0 or ch.int(0, 9) < 4:
        return gen_atom(ch)
    k = ch.int(0, 9)
    if k < 1:
        inner = gen_arith(ch, d - 1)
        # unary minus: only on bindings, calls and parenthesised operands (-7 is a signed literal)
        if inner[0] == "atom" and not inner[1].startswith("["):
            inner = ["atom", ch.choice(BINDS)]
        return ["neg", inner]
    if k < 5:
        return ["bin", ch.choice(ARITH1), gen_arith(ch, d - 1), gen_arith(ch, d - 1)]
    op = ch.choice(ARITH2 + ["%"])
    if op == "%" and AVOID["percent"]:
        # open known finding KF10b: the grammar treats % as a comparison operator
        EXCLUDED["KF10b:percent_operator"] = EXCLUDED.get("KF10b:percent_operator", 0) + 1
        op = "*"
    return ["bin", op, gen_arith(ch, d - 1), gen_arith(ch, d - 1)]


def gen_cmp(ch, d_arith=1, percent_ok=False):
    ops = CMP_SYM + CMP_WORD
    op = ch.choice(ops)
    if op in CMP_WORD:
        op = ch.choice([op, op.lower(), op.capitalize()])
    left = gen_arith(ch, d_arith)
    if ch.chance(1, 6):
        # a chain of comparison-level operators without parentheses groups from the left: a > 1 = 1 is (a > 1) = 1
        op0 = ch.choice(CMP_SYM + CMP_WORD)
        left = ["cmp", op0, left, gen_arith(ch, d_arith)]
    right = gen_arith(ch, d_arith)
    if ch.chance(1, 12):
        right = ["cmp", ch.choice(CMP_SYM), right, gen_atom(ch)]   # needs explicit parentheses on the right
    return ["cmp", op, left, right]


def gen_logic(ch, d):
    if d <= 0 or ch.int(0, 9) < 3:
        return gen_cmp(ch, ch.int(0, 2))
    k = ch.int(0, 9)
    if k < 2:
        return ["not", gen_logic(ch, d - 1)]
    if k < 6:
        return ["and", gen_logic(ch, d - 1), gen_logic(ch, d - 1)]
    return ["or", gen_logic(ch, d - 1), gen_logic(ch, d - 1)]


def gen_tree(ch, max_depth=3, kind=None):
    kind = kind or ch.choice(["logic", "logic", "logic", "arith"])
    if kind == "logic":
        return gen_logic(ch, ch.int(0, max_depth))
    t = gen_arith(ch, ch.int(1, max_depth))
    if t[0] == "atom":
        t = ["bin", ch.choice(ARITH1 + ARITH2), t, gen_atom(ch)]
    return t


def n_ops(t):
    k = t[0]
    if k in ("atom", "func"):
        return 0
    if k in ("not", "neg"):
        return 1 + n_ops(t[1])
    if k in ("or", "and"):
        return 1 + n_ops(t[1]) + n_ops(t[2])
    return 1 + n_ops(t[2]) + n_ops(t[3])


def levels_used(t, acc=None):
    acc = set() if acc is None else acc
    k = t[0]
    if k in ("atom", "func"):
        return acc
    acc.add(level(t))
    for c in (t[1:] if k in ("or", "and", "not", "neg") else t[2:]):
        levels_used(c, acc)
    return acc


# ---------------------------------------------------------------- source rendering

class Fixed:
    """Deterministic chooser for canonical rendering (no redundant parentheses)."""

    def choice(self, seq):
        return seq[0]

    def int(self, lo, hi):
        return lo

    def chance(self, n, d):
        return False


def src(t, ch, parent=0, right=False, stats=None):
    """Render with the parentheses MapServer's precedence requires (left associative)
    plus drawn redundant ones; binary operators always surrounded by spaces."""
    k = t[0]
    if k == "atom":
        s = t[1]
    elif k == "func":
        sep = ch.choice([",", ", ", " , "])
        s = t[1] + ch.choice(["(", "( "]) + sep.join(a[1] for a in t[2]) + ch.choice([")", " )"])
    elif k == "neg":
        inner = src(t[1], ch, PREC["neg"], stats=stats)
        s = "-" + inner if not inner.startswith("-") else "-(" + inner + ")"
    elif k == "not":
        s = ch.choice(["NOT ", "not ", "! ", "!", "Not "]) + src(t[1], ch, PREC["not"], stats=stats)
    elif k in ("or", "and"):
        op = {"or": ["OR", "or", "||", "Or"], "and": ["AND", "and", "&&", "And"]}[k]
        s = src(t[1], ch, level(t), stats=stats) + " " + ch.choice(op) + " " + src(t[2], ch, level(t), True, stats=stats)
    elif k == "cmp":
        # comparison operators are left-associative: a nested comparison needs parentheses only on the right
        s = src(t[2], ch, level(t), stats=stats) + " " + t[1] + " " + src(t[3], ch, level(t), True, stats=stats)
    else:  # bin
        s = src(t[2], ch, level(t), stats=stats) + " " + t[1] + " " + src(t[3], ch, level(t), True, stats=stats)
    need = level(t) < parent or (level(t) == parent and right and k in ("or", "and", "bin", "cmp"))
    if need:
        if stats is not None:
            stats["required_paren"] = stats.get("required_paren", 0) + 1
        s = "(" + s + ")"
    elif (k not in ("atom", "func") and ch.chance(1, 6)) or (k in ("atom", "func") and parent > 0 and ch.chance(1, 12)):
        # (an operand in parentheses of its own - `[a] + (1) > 2` - as well)
        if stats is not None:
            stats["redundant_paren"] = stats.get("redundant_paren", 0) + 1
        s = ch.choice(["(", "( "]) + s + ch.choice([")", " )"])
    return s


# ---------------------------------------------------------------- reference parser

TOK = re.compile(
    r"\s*(\[[^\]]*\]|\"(?:\\\"|[^\"])*\"|'(?:\\'|[^'])*'|`[^`]*`|\d+\.\d*(?:[eE][-+]?\d+)?|\.\d+|\d+"
    r"|<=|>=|==|!=|=\*|~\*|\|\||&&|[()=<>~%,+\-*/^!]|[A-Za-z_][A-Za-z0-9_]*)"
)
_CMPS = set(CMP_SYM)
_CMPW = set(CMP_WORD)


class RefParseError(Exception):
    pass


def toks(s):
    out = []
    i = 0
    while i < len(s):
        m = TOK.match(s, i)
        if not m:
            if s[i:].strip() == "":
                break
            raise RefParseError("cannot tokenize at: " + s[i:i + 30])
        out.append(m.group(1))
        i = m.end()
    return out


class RP:
    def __init__(self, t, percent_level="mul"):
        self.t, self.i, self.pl = t, 0, percent_level

    def peek(self):
        return self.t[self.i] if self.i < len(self.t) else None

    def eat(self):
        if self.i >= len(self.t):
            raise RefParseError("unexpected end")
        self.i += 1
        return self.t[self.i - 1]

    def p_or(self):
        l = self.p_and()
        while self.peek() is not None and (self.peek().upper() == "OR" or self.peek() == "||"):
            op = self.eat()
            l = ["or", l, self.p_and(), op]
        return l

    def p_and(self):
        l = self.p_not()
        while self.peek() is not None and (self.peek().upper() == "AND" or self.peek() == "&&"):
            op = self.eat()
            l = ["and", l, self.p_not(), op]
        return l

    def p_not(self):
        if self.peek() is not None and (self.peek().upper() == "NOT" or self.peek() == "!"):
            op = self.eat()
            return ["not", self.p_not(), op]
        return self.p_cmp()

    def p_cmp(self):
        l = self.p_add()
        while self.peek() is not None and (self.peek() in _CMPS or self.peek().upper() in _CMPW):
            op = self.eat()
            l = ["cmp", op, l, self.p_add()]
        return l

    def p_add(self):
        l = self.p_mul()
        while self.peek() in ("+", "-"):
            op = self.eat()
            l = ["bin", op, l, self.p_mul()]
        return l

    def p_mul(self):
        l = self.p_un()
        while self.peek() in ("*", "/", "^", "%"):
            op = self.eat()
            l = ["bin", op, l, self.p_un()]
        return l

    def p_un(self):
        if self.peek() == "-":
            self.eat()
            return ["neg", self.p_un()]
        return self.p_atom()

    def p_atom(self):
        t = self.eat()
        if t == "(":
            e = self.p_or()
            if self.eat() != ")":
                raise RefParseError("expected )")
            return e
        if re.match(r"[A-Za-z_]", t) and self.peek() == "(":
            self.eat()
            args = []
            while True:
                args.append(["atom", self.eat()])
                nx = self.eat()
                if nx == ")":
                    break
                if nx != ",":
                    raise RefParseError("expected , or ) in call")
            return ["func", t, args]
        if t in (")", ",") or t in _CMPS or t in ("+", "*", "/", "^", "%", "||", "&&"):
            raise RefParseError("unexpected " + t)
        return ["atom", t]


def refparse(s):
    p = RP(toks(s))
    e = p.p_or()
    if p.i != len(p.t):
        raise RefParseError("trailing tokens: " + " ".join(p.t[p.i:p.i + 5]))
    return e


def canon(t, keep_logic_spelling=False):
    """Canonical form for comparison: numbers by value, logic spellings dropped
    (or kept, to check AND/OR/NOT spelling in normalised strings)."""
    k = t[0]
    if k == "atom":
        try:
            return ("num", float(t[1]))
        except ValueError:
            return ("atom", t[1])
    if k == "func":
        return ("func", t[1], tuple(canon(a) for a in t[2]))
    if k in ("or", "and"):
        return (k, canon(t[1], keep_logic_spelling), canon(t[2], keep_logic_spelling))
    if k == "not":
        return (k, canon(t[1], keep_logic_spelling))
    if k == "neg":
        inner = canon(t[1], keep_logic_spelling)
        if inner[0] == "num":
            return ("num", -inner[1])
        return (k, inner)
    return (k, t[1], canon(t[2], keep_logic_spelling), canon(t[3], keep_logic_spelling))


def logic_spellings(t, out=None):
    """All spellings of logical operators in a parsed tree."""
    out = [] if out is None else out
    k = t[0]
    if k in ("or", "and"):
        if len(t) > 3:
            out.append((k, t[3]))
        logic_spellings(t[1], out)
        logic_spellings(t[2], out)
    elif k == "not":
        if len(t) > 2:
            out.append((k, t[2]))
        logic_spellings(t[1], out)
    elif k == "neg":
        logic_spellings(t[1], out)
    elif k in ("cmp", "bin"):
        logic_spellings(t[2], out)
        logic_spellings(t[3], out)
    return out


def check_normalised(tree, norm: str):
    """-> list of discrepancy strings (empty = the normalised string denotes `tree`)."""
    if not isinstance(norm, str):
        return [f"expression value is not a string: {norm!r}"]
    s = norm.strip()
    if not (s.startswith("(") and s.endswith(")")):
        return [f"normalised expression not parenthesised: {norm!r}"]
    try:
        got = refparse(s)
    except RefParseError as e:
        return [f"normalised expression does not parse under MapServer precedence ({e}): {norm!r}"]
    out = []
    if canon(got) != canon(tree):
        out.append(f"regrouped/changed: source tree {canon(tree)!r} but normalised {norm!r} denotes {canon(got)!r}")
    for k, sp in logic_spellings(got):
        if sp != k.upper():
            out.append(f"logical operator spelled {sp!r} in normalised string {norm!r}")
    return out
