"""Independent renderer: model -> Mapfile text, with the 1-based (line, column) of every
token it emits (DESIGN 3.2).  The renderer *writes* the text, so it knows where
everything is (C08) and which comment it put where (C14)."""
from __future__ import annotations

from . import strings

WS_SEPS = [" ", "  ", "\t", "\n", "\r\n", "\n\n   ", " \f ", "\n\t", "   \n  ", "\r\n\r\n", " \t "]
COMMENT_TEXTS = ["c", "a comment", "END", "LAYER NAME \"x\"", "\"unbalanced", "it's", "# nested #", "x /* y",
                 "TYPE polygon", "ünï", "", "-- 100% --", "page\x0cbreak", "ls\u2028x", "nel\x85y {z}", "v\x0bt"]
CCOMMENT_TEXTS = ["c", " a comment ", " END ", "multi\nline", " \"q\" ", "*", " # hash ", "\n", " LAYER\n NAME 'x'\nEND "]


class Tok:
    __slots__ = ("text", "role", "path", "item", "j", "line", "col", "kind", "cmt_after")

    def __init__(self, text, role, path=(), item=None, j=None, kind=None):
        self.text, self.role, self.path, self.item, self.j, self.kind = text, role, path, item, j, kind
        self.line = self.col = None
        self.cmt_after = None

    def as_dict(self):
        return {"text": self.text, "role": self.role, "path": list(self.path), "item": self.item, "j": self.j,
                "line": self.line, "col": self.col}


class Canonical:
    """upper-case keywords, one keyword per line, double quotes (single if needed)."""

    fancy = False

    def kw(self, k):
        return k.upper()

    def boolean(self, b):
        return "TRUE" if b else "FALSE"

    def quote(self, s):
        return "'" if strings.unescaped(s, '"') else '"'

    def bare(self, s):
        return False

    def num(self, v):
        return fmt_num(v)


class Surface:
    """A Hypothesis-drawn surface: per-token letter case, separators, quote style, bare words."""

    fancy = True

    def __init__(self, ch, comments=True, bare=True, stats=None, crlf=True, nospace_ccomment=True, numbers=False):
        self.ch, self.comments, self.allow_bare, self.crlf = ch, comments, bare, crlf
        self.numbers = numbers   # other spellings of the same number (MapServer's MS_NUMBER forms): +5 007 5. .5 5e-1 1E3
        self.nospace_ccomment = nospace_ccomment
        self.stats = stats if stats is not None else {}

    def _c(self, k):
        self.stats[k] = self.stats.get(k, 0) + 1

    def kw(self, k):
        m = self.ch.int(0, 3)
        if m == 0:
            return k.upper()
        if m == 1:
            self._c("kwcase:lower")
            return k.lower()
        if m == 2:
            self._c("kwcase:capital")
            return k.capitalize()
        self._c("kwcase:mixed")
        return "".join(c.upper() if self.ch.bool() else c.lower() for c in k)

    def boolean(self, b):
        return self.ch.choice(["TRUE", "true", "True", "tRuE"] if b else ["FALSE", "false", "False", "fAlSe"])

    def quote(self, s):
        if strings.unescaped(s, '"'):
            return "'"
        if strings.unescaped(s, "'"):
            return '"'
        q = self.ch.choice(['"', "'"])   # (escaped occurrences of a quote character may stand inside either quote)
        if q == "'":
            self._c("quote:single")
        return q

    def bare(self, s):
        if self.allow_bare and strings.is_bare_word(s) and self.ch.bool():
            self._c("bare_word")
            return True
        return False

    def num(self, v):
        s = fmt_num(v)
        if not self.numbers or not self.ch.chance(1, 3):
            return s
        ch = self.ch
        neg = s.startswith("-")
        body = s[1:] if neg else s
        if isinstance(v, int) and not isinstance(v, bool):
            alts = ["0" + body, "00" + body]
        else:
            alts = []
            ip, _, fp = body.partition(".")
            if fp == "0":
                alts += [ip + ".", ip + ".00", ip + "e0", ip + ".0E+0"]
            else:
                alts += [body + "0", "0" + body]
            if ip == "0" and fp not in ("", "0"):
                alts.append("." + fp)
            for e in ("%e" % abs(v), "%.3E" % abs(v), "%.12e" % abs(v), "%.17e" % abs(v)):
                alts.append(e)
            for m, x in ((abs(float(v)) * 1000, "e-3"), (abs(float(v)) / 100, "E+2")):
                if "e" not in repr(m) and "inf" not in repr(m):
                    alts.append(repr(m) + x)
            alts = [a for a in alts if "inf" not in a and "nan" not in a and float(a) == abs(float(v))]
        if not alts:
            return s
        body = ch.choice(alts)
        sign = "-" if neg else ch.choice(["", "", "+"])
        self._c("number_spelling")
        out = sign + body
        assert (int(out) if isinstance(v, int) else float(out)) == v, (out, v)
        return out

    def sep(self, between_values=False):
        ch = self.ch
        m = ch.int(0, 9) if self.comments else ch.int(0, 5)
        if m <= 5:
            s = ch.choice(WS_SEPS)
            if not self.crlf:
                s = s.replace("\r", "")
            if "\n" in s:
                self._c("sep:linebreak")
            if "\r" in s:
                self._c("sep:crlf")
            if "\f" in s:
                self._c("sep:formfeed")
            if "\t" in s:
                self._c("sep:tab")
            return s
        if m <= 7:
            self._c("sep:hash_comment")
            if between_values:
                self._c("sep:comment_in_value_list")
            return ch.choice([" ", "", "\t", "\n"]) + "#" + ch.choice(COMMENT_TEXTS) + ch.choice(["\n", "\r\n" if self.crlf else "\n", "\n  "])
        self._c("sep:c_comment")
        if between_values:
            self._c("sep:comment_in_value_list")
        pre = ch.choice([" ", "\n", "\t"])
        post = ch.choice([" ", "\n", " \n "])
        if self.nospace_ccomment and ch.chance(1, 8):
            self._c("sep:c_comment_nospace")
            if ch.bool():
                pre = ""
            else:
                post = ""
        return pre + "/*" + ch.choice(CCOMMENT_TEXTS) + "*/" + post


def fmt_num(v):
    if isinstance(v, bool):
        raise TypeError("bool is not a number here")
    if isinstance(v, int):
        return str(v)
    s = repr(float(v))
    assert "inf" not in s and "nan" not in s, s
    if "e" in s:
        # written as a plain decimal literal (MapServer's way); must denote exactly the same float
        from decimal import Decimal

        s = format(Decimal(s), "f")
        if "." not in s:
            s += ".0"
        assert float(s) == float(v), (s, v)
    return s


def q(s, qc):
    return qc + s + qc


def tokens(doc, surf):
    """Flatten a document model into tokens (no separators yet)."""
    out = []
    for ri, root in enumerate(doc):
        _obj_tokens(root, surf, (ri,), out)
    return out


def _str_tok(s, surf, path, item, j, allow_bare=True):
    if allow_bare and surf.bare(s):
        return Tok(s, "val", path, item, j, kind="bare")
    return Tok(q(s, surf.quote(s)), "val", path, item, j, kind="qstr")


def _obj_tokens(obj, surf, path, out):
    out.append(Tok(surf.kw(obj["t"]), "open", path, kind="kw"))
    if "kvroot" in obj:
        j = 0
        for a, b in obj["kvroot"]:
            out.append(_str_tok(a, surf, path, "kvroot", j))
            out.append(_str_tok(b, surf, path, "kvroot", j + 1))
            j += 2
    for i, it in enumerate(obj["items"]):
        kind = it[0]
        if kind == "obj":
            _obj_tokens(it[1], surf, path + (i,), out)
        elif kind == "attr":
            _, k, cls, v = it
            out.append(Tok(surf.kw(k), "key", path, i, kind="kw"))
            for j, (txt, tk) in enumerate(atom_texts(cls, v, surf)):
                out.append(Tok(txt, "val", path, i, j, kind=tk))
        elif kind == "kv":
            out.append(Tok(surf.kw(it[1]), "key", path, i, kind="kw"))
            j = 0
            for a, b in it[2]:
                out.append(_str_tok(a, surf, path, i, j))
                out.append(_str_tok(b, surf, path, i, j + 1))
                j += 2
            out.append(Tok(surf.kw("end"), "blockend", path, i, kind="kw"))
        elif kind == "config":
            out.append(Tok(surf.kw("config"), "key", path, i, kind="kw"))
            out.append(_str_tok(it[1], surf, path, i, 0))
            out.append(_str_tok(it[2], surf, path, i, 1))
        elif kind == "proj":
            out.append(Tok(surf.kw("projection"), "key", path, i, kind="kw"))
            if isinstance(it[1], str):
                out.append(Tok(it[1], "val", path, i, 0, kind="word"))
            else:
                for j, s in enumerate(it[1]):
                    out.append(_str_tok(s, surf, path, i, j, allow_bare=False))
            out.append(Tok(surf.kw("end"), "blockend", path, i, kind="kw"))
        elif kind == "pairs":
            out.append(Tok(surf.kw(it[1]), "key", path, i, kind="kw"))
            j = 0
            for a, b in it[2]:
                out.append(Tok(surf.num(a), "val", path, i, j, kind="num"))
                out.append(Tok(surf.num(b), "val", path, i, j + 1, kind="num"))
                j += 2
            out.append(Tok(surf.kw("end"), "blockend", path, i, kind="kw"))
        elif kind == "rep":
            out.append(Tok(surf.kw(it[1]), "key", path, i, kind="kw"))
            out.append(_str_tok(it[2], surf, path, i, 0, allow_bare=False))
        else:
            raise ValueError(kind)
    out.append(Tok(surf.kw("end"), "end", path, kind="kw"))


def atom_texts(cls, v, surf):
    """-> list of (text, token kind)"""
    if cls == "str":
        if surf.bare(v):
            return [(v, "bare")]
        return [(q(v, surf.quote(v)), "qstr")]
    if cls in ("int", "float"):
        return [(surf.num(v), "num")]
    if cls == "bool":
        return [(surf.boolean(v), "kw")]
    if cls == "enum":
        return [(v, "word")]
    if cls == "hex":
        return [(q(v, surf.quote(v)), "hex")]
    if cls in ("bind", "regex", "listx"):
        return [(v, cls)]
    if cls == "expr":
        return [(v["src"], "expr")]
    if cls == "nums":
        return [(surf.num(x), "num") for x in v]
    if cls == "hexpair":
        return [(q(x, surf.quote(x)), "hex") for x in v]
    if cls == "binds":
        return [(x, "bind") for x in v]
    if cls == "mixed":
        return [(x, "bind") if isinstance(x, str) else (surf.num(x), "num") for x in v]
    raise ValueError(cls)


class Rendered:
    def __init__(self, text, toks):
        self.text, self.tokens = text, toks


def advance(line, col, s):
    """Position after emitting s (Lark's convention: only LF starts a new line)."""
    n = s.count("\n")
    if n:
        return line + n, len(s) - s.rfind("\n")
    return line, col + len(s)


def layout(toks, surf, indent=2):
    """Join tokens with separators, recording positions."""
    parts = []
    line, col = 1, 1

    def emit(s):
        nonlocal line, col
        parts.append(s)
        line, col = advance(line, col, s)

    if surf.fancy:
        if surf.ch.chance(1, 5):
            emit(surf.sep())
        for i, t in enumerate(toks):
            t.line, t.col = line, col
            emit(t.text)
            if i + 1 < len(toks):
                nxt = toks[i + 1]
                emit(surf.sep(between_values=(nxt.role == "val" and t.role == "val")))
            elif surf.ch.chance(1, 3):
                emit(surf.sep())
    else:
        depth = 0
        for i, t in enumerate(toks):
            if t.role in ("end", "blockend"):
                depth -= 1
            if t.role in ("open", "key", "end", "blockend"):
                if i:
                    emit("\n")
                emit(" " * (indent * depth))
            elif t.role == "val":
                prev = toks[i - 1]
                in_block = _in_val_block(toks, i)
                if in_block and (t.j % 2 == 0 or in_block == "proj"):
                    emit("\n" + " " * (indent * depth))
                else:
                    emit(" ")
            t.line, t.col = line, col
            emit(t.text)
            if t.role == "open":
                depth += 1
            elif t.role == "key" and _opens_block(toks, i):
                depth += 1
        emit("\n")
    return Rendered("".join(parts), toks)


def _opens_block(toks, i):
    """Is the key token i the opener of a kv/proj/pairs block (closed by a 'blockend')?"""
    t = toks[i]
    for u in toks[i + 1:]:
        if u.path == t.path and u.item == t.item:
            if u.role == "blockend":
                return True
            continue
        break
    return False


def _in_val_block(toks, i):
    t = toks[i]
    if t.item == "kvroot":
        return "pairs"
    k = i
    while k >= 0 and not (toks[k].role == "key" and toks[k].item == t.item and toks[k].path == t.path):
        k -= 1
    if k < 0 or not _opens_block(toks, k):
        return None
    return "proj" if toks[k].text.lower() == "projection" else "pairs"


def render(doc, surf=None, indent=2):
    surf = surf or Canonical()
    return layout(tokens(doc, surf), surf, indent)
