"""Document model and its schema-driven generator (DESIGN 3.2).

A model is JSON-able:
  obj  = {"t": type, "items": [item...]}
  item = ["attr", key, cls, value]       simple keyword; cls in CLS below
       | ["obj", obj]                    child block
       | ["kv", name, [[k, v], ...]]     METADATA / VALIDATION / CONNECTIONOPTIONS / VALUES
       | ["config", k, v]
       | ["proj", [str...] | "AUTO"|"auto"|...]   (a str is the AUTO word as spelled)
       | ["pairs", "points"|"pattern", [[a, b], ...]]
       | ["rep", key, str]               PROCESSING / FORMATOPTION / COMPFILTER / INCLUDE
  doc  = [obj, ...]                      one or more roots

Attribute classes (cls) and the value stored in the model:
  str    free string                      -> quoted (or bare when the surface says so)
  enum   word as spelled in the source    -> bare
  int, float, bool
  nums   list of numbers                  (rgb, extent, size pairs, colorrange)
  hex    "#rrggbb" as spelled             -> quoted, lower-cased by loads
  bind   "[item]"
  expr   {"tree": tree, "src": "(...)"}   parenthesised expression
  regex  "/re/" or "/re/i"
  listx  "{a,b}" list expression
  hexpair [hex, hex]; binds ["[a]","[b]"]; mixed [num|bind, num|bind]
"""
from __future__ import annotations

from hypothesis import strategies as st

from . import exprs, strings, vocab

SINGLETON = {"cluster", "grid", "leader", "legend", "querymap", "reference", "scalebar", "web"}
KV_NAMES = ("metadata", "validation", "connectionoptions", "values")

HEXES = ["#FF00aa", "#abc", "#00ff0080", "#ABC", "#000000", "#ffFFff", "#12345678", "#a1B2c3"]
BIND_NAMES = ["item", "NAME", "my_attr", "x1", "pop_2000", "a"]
REGEXES = ["/^a.b$/", "/x|y/", "/a b/", "/^[0-9]+$/", "/./", "/(a|b)c/"]
LISTX_ITEMS = ["a", "road", "rail road", "A", "2_Klass", "a-b", "c_d", "1", "12", "007", "+5", "-1", "1e3", "5.", ".5", "2.50", "1.0", "10",
               "TRUE", "false", "True", "ON", "x.y", "it's", "caf\u00e9", "0", "00", "1E+2", "-0.0", "end"]
LISTX = ["{a,b,c}", "{1,2,3}", "{road,rail}", "{x}", "{a, b}", "{rail road,b}", "{ a ,b }", "{A,b,C}"]
KV_KEYS = ["wms_title", "WMS_SRS", "k 1", "a", "ows_enable_request", "Wfs_Abstract", "gml_include_items", "x", "key2",
           "default_x", "qstring", "oWs_TiTle", "Stra\u00dfe", "\u017ft", "\u03c3\u03c2", "\u0130x", "projection", "layer"]   # (+ keys whose casefold / upper forms differ from lower)
CONFIG_KEYS = ["MS_ERRORFILE", "proj_lib", "On_Missing_Data", "CGI_CONTEXT_URL", "MS_ENCRYPTION_KEY", "my_key", "PROJ_LIB"]
PROJ = [["init=epsg:4326"], ["proj=utm", "zone=15", "datum=NAD83", "no_defs"], ["+proj=longlat +datum=WGS84"],
        ["proj=lcc", "lat_1=49", "lat_2=77", "units=m"], ["init=epsg:3857", "x"], ["'+proj=longlat'", "+no_defs"]]
REP_VALUES = ["BANDS=1", "a b", "x=y", "CLOSE_CONNECTION=DEFER", "QUALITY=90", "grayscale()", "blur(10)", "NATIVE_FILTER=id=1"]
SPECIAL_FLOATS = [0.00001, 0.00002, 0.000015, 0.00005, 0.0000001, -0.00001, 1e16, 123456789012345680.0, 2.5e-05, 1e22]
INCLUDES = ["inc.map", "layers/roads.map", "../x.map", "a-b_c.map"]


class Ch:
    """All random choices are Hypothesis draws."""

    def __init__(self, draw):
        self.draw = draw

    def choice(self, seq):
        return self.draw(st.sampled_from(seq))

    def int(self, lo, hi):
        return self.draw(st.integers(lo, hi))

    def bool(self):
        return self.draw(st.booleans())

    def chance(self, num, den):
        return self.draw(st.integers(0, den - 1)) >= den - num


class Profile:
    def __init__(self, **kw):
        self.max_depth = 4
        self.max_items = 6
        self.max_children = 3
        self.forbid = ""            # characters no string may contain (the output quote)
        self.lookalike_multi = True  # expression look-alike strings at multi-alternative keywords
        self.multiline = True
        self.dups = True            # a keyword may be given twice
        self.valid = False          # honour minItems/maxItems/required (schema-valid document)
        self.inline_symbol = True   # SYMBOL block inside STYLE / CLASS: stored under 'symbols' (consistent with the documented
        #                             contract, but never schema-valid: known finding KF16 - valid documents switch this off)
        self.exprs = True
        self.includes = True        # INCLUDE as a repeatable keyword (expand_includes=False only)
        self.simple_strings = False
        self.roots = None           # restrict root types
        self.multi_root = True
        self.symbolset = True
        self.kv_roots = True
        self.numbers_at_strings = True
        self.child_bias = 3         # tenths: how often a block-valued slot is picked on purpose
        self.avoid = set()          # names of open known findings to avoid by construction
        self.expr_depth = 2
        self.version = None         # only slots/alternatives valid for this version (C07 valid docs)
        self.__dict__.update(kw)


class Gen:
    def __init__(self, ch: Ch, profile: Profile, stats=None):
        self.ch, self.p = ch, profile
        self.stats = stats if stats is not None else {}

    def count(self, k, n=1):
        self.stats[k] = self.stats.get(k, 0) + n

    # ------------------------------------------------------------------ documents
    def document(self):
        ch, p = self.ch, self.p
        types = p.roots or vocab.OBJ_TYPES
        if p.symbolset and not p.roots and ch.chance(1, 25):
            n = ch.int(0, 3)
            return [{"t": "symbolset", "items": [["obj", self.obj("symbol", 1)] for _ in range(n)]}]
        if p.kv_roots and not p.roots and ch.chance(1, 30):
            # a key-value block as the root of a partial Mapfile
            return [{"t": ch.choice(["metadata", "validation", "connectionoptions"]), "kvroot": self.kv_pairs(), "items": []}]
        n = 1
        if p.multi_root and ch.chance(1, 6):
            n = ch.int(2, 3)
        if n > 1 and p.kv_roots and not p.roots:
            # several roots, a key-value block possibly among them (before, between or after ordinary blocks)
            return [({"t": ch.choice(["metadata", "validation", "connectionoptions"]), "kvroot": self.kv_pairs(), "items": []}
                     if ch.chance(1, 5) else self.obj(ch.choice(types), 0)) for _ in range(n)]
        return [self.obj(ch.choice(types), 0) for _ in range(n)]

    def forced_document(self, combo):
        """A document that is guaranteed to contain the keyword slot / alternative `combo` = (type, key, alt index)
        with a drawn value, among drawn neighbours, at the root or nested in a drawn parent chain."""
        ch, p = self.ch, self.p
        t, k, ai = combo
        slot = vocab.slots(t)[k]
        alt = slot.alts[ai]
        o = self.obj(t, 1)
        if p.valid or not p.dups:
            o["items"] = [it for it in o["items"] if not (it[0] == "attr" and it[1] == k)]
        its = self.slot_items(t, slot, alt, 1)
        if its:
            pos = ch.int(0, len(o["items"]))
            o["items"][pos:pos] = its
            self.count("forced_slot")
        # optionally nest it in a parent that admits this type
        parents = [(pt, pk, lst) for (pt, pk, c, lst) in vocab.child_edges() if c == t and pt != "symbolset"
                   and not (c == "symbol" and pt in ("style", "class") and not p.inline_symbol)]
        doc_obj = o
        for _ in range(ch.int(0, 2)):
            if not parents:
                break
            pt, pk, lst = ch.choice(parents)
            par = self.obj(pt, 3)   # depth 3: few further children of its own
            par["items"] = [it for it in par["items"] if not (it[0] == "obj" and it[1]["t"] == doc_obj["t"])] if p.valid else par["items"]
            par["items"].insert(ch.int(0, len(par["items"])), ["obj", doc_obj])
            doc_obj = par
            parents = [(a, b, c2) for (a, b, c, c2) in vocab.child_edges() if c == pt and a != "symbolset"]
        return [doc_obj]

    def obj(self, type_, depth):
        ch, p = self.ch, self.p
        sl = vocab.slots(type_)
        keys = list(sl.keys())
        items = []
        n = ch.int(0, p.max_items)
        used = set()
        singles_used = set()
        block_keys = [k for k in keys if sl[k].block_child() is not None or sl[k].alts[0].shape in ("kv", "kvinline", "points", "pointslist")
                      or k == "projection"]
        for _ in range(n):
            if block_keys and depth < p.max_depth and ch.chance(p.child_bias, 10):
                k = ch.choice(block_keys)
            else:
                k = ch.choice(keys)
            if k in used and not p.dups:
                continue
            slot = sl[k]
            alts = slot.alts
            if p.version is not None:
                if not _in_range(slot.meta, p.version):
                    continue
                alts = [a for a in alts if _in_range(a.meta, p.version)]
                if not alts:
                    continue
            alt = ch.choice(alts)
            its = self.slot_items(type_, slot, alt, depth)
            if not its:
                continue
            if p.valid and its[0][0] == "obj":
                # respect maxItems on object lists and single occurrence of singleton children
                ct = its[0][1]["t"]
                if k in used:
                    continue
                mx = alt.node.get("maxItems")
                if mx is not None:
                    its = its[:mx]
            used.add(k)
            items.extend(its)
        if p.valid:
            for rk in vocab.required(type_):
                if not any(i[0] == "attr" and i[1] == rk for i in items):
                    slot = sl[rk]
                    items.insert(ch.int(0, len(items)), self.slot_items(type_, slot, slot.alts[0], depth)[0])
            if type_ == "leader" and not any(i[0] == "obj" for i in items):
                pass  # LEADER styles minItems is checked by C07's own fault model
        self.count("objects")
        return {"t": type_, "items": items}

    # ------------------------------------------------------------------ one slot
    def slot_items(self, type_, slot, alt, depth):
        ch, p = self.ch, self.p
        k, sh = slot.key, alt.shape
        if sh == "object":
            if alt.arg == "symbol" and type_ != "symbolset" and not p.inline_symbol:
                self.count("excluded:inline_symbol_block")
                return []
            if depth >= p.max_depth:
                return []
            return [["obj", self.obj(alt.arg, depth + 1)]]
        if sh == "objlist":
            if depth >= p.max_depth:
                return []
            n = ch.int(1, p.max_children)
            mn = alt.node.get("minItems")
            return [["obj", self.obj(alt.arg, depth + 1)] for _ in range(max(n, mn or 0))]
        if sh == "kv":
            return [["kv", alt.arg, self.kv_pairs()]]
        if sh == "kvinline":
            if k == "config":
                return [["config", *self.config_pair()] for _ in range(ch.int(1, 3))]
            return [["kv", k, self.kv_pairs()]]
        if alt.ref == "projection.json" or k == "projection":
            if sh == "enum":
                return [["proj", ch.choice(["AUTO", "auto", "Auto"])]]
            pool = [x for x in PROJ if not any(c in y for y in x for c in p.forbid)]
            return [["proj", [self.string(multiline=False)[0] for _ in range(ch.int(1, 3))] if ch.chance(1, 2) else list(ch.choice(pool))]]
        if sh == "points":
            if k == "pattern":
                return [["pairs", "pattern", self.pairs(1, 3, positive=True)]]
            if k == "points":
                return [["pairs", "points", self.pairs(1, 4)]]
            return []  # LABEL BACKGROUNDSHADOWSIZE (points-typed keyword, not a block) - C19 only
        if sh == "pointslist":
            return [["pairs", "points", self.pairs(1, 3)] for _ in range(ch.int(2, 3))]
        if sh == "strlist":
            if k == "include":
                if not p.includes:
                    return []
                return [["rep", k, ch.choice(INCLUDES)] for _ in range(ch.int(1, 2))]
            reps = []
            for _ in range(ch.int(1, 4)):
                if reps and ch.chance(1, 4):
                    reps.append(["rep", k, ch.choice(reps)[2]])   # the same directive written again, character for character
                    self.count("rep:duplicate_value")
                else:
                    reps.append(["rep", k, ch.choice(REP_VALUES) if ch.chance(3, 4) else self.string(multiline=False)[0]])
            return reps
        v = self.atom(type_, slot, alt)
        if v is None:
            return []
        return [["attr", k, v[0], v[1]]]

    def kv_pairs(self):
        ch = self.ch
        n = ch.int(0, 4)
        out = []
        for _ in range(n):
            key = ch.choice(KV_KEYS) if ch.chance(5, 6) else self.string(multiline=False, empty=False)[0]
            if key.startswith("__") and key.endswith("__"):
                key = "k" + key   # keys of the form __name__ are reserved for hidden bookkeeping (never printed by design)
            out.append([key, self.string()[0]])
        return out

    def config_pair(self):
        ch = self.ch
        k = ch.choice(CONFIG_KEYS)
        if k.upper() == "ON_MISSING_DATA":
            return k, ch.choice(["FAIL", "LOG", "IGNORE"])
        return k, self.string(multiline=False)[0]

    def pairs(self, lo, hi, positive=False):
        ch = self.ch
        out = []
        for _ in range(ch.int(lo, hi)):
            out.append([self.number(False, 0 if positive else -1000, 1000), self.number(False, 0 if positive else -1000, 1000)])
        return out

    def string(self, multi_alt=False, multiline=True, empty=True):
        p = self.p
        s, cls = strings.free_string(
            self.ch, forbid=p.forbid, lookalike_ok=(not multi_alt) or p.lookalike_multi,
            multiline_ok=multiline and p.multiline, empty_ok=empty, simple=p.simple_strings)
        self.count("str:" + cls)
        return s, cls

    def listx(self):
        """a list expression: items are literal strings for MapServer, whatever they look like"""
        ch = self.ch
        if ch.chance(1, 3):
            return ch.choice(LISTX)
        items = [ch.choice(LISTX_ITEMS) for _ in range(ch.int(1, 4))]
        sp = lambda: ch.choice(["", "", " ", "  "])  # noqa: E731
        # (the grammar reads an item after a blank as a bare word and then trips over '.' or '+': `{a, 2.5}` and
        #  `{ x.y}` are rejected with a parse error - a limitation no property speaks about; such items follow the
        #  comma directly)
        return "{" + ",".join(("" if ("." in it or "+" in it) else sp()) + it + sp() for it in items) + "}"

    def number(self, integer, lo=None, hi=None, lo_x=False, hi_x=False):
        """int, or decimal literal with <= 4 fractional digits; within bounds."""
        ch = self.ch
        if lo is None:
            lo = -100000
        if hi is None:
            hi = max(lo + 10, 100000)
        ilo = int(lo) if float(lo).is_integer() else int(lo) + 1
        ihi = int(hi) if float(hi).is_integer() else int(hi)
        if float(lo).is_integer() and lo_x:
            ilo += 1
        if float(hi).is_integer() and hi_x:
            ihi -= 1
        if integer or ch.chance(1, 2) or ihi - ilo < 1:
            if ilo > ihi:
                # no integer in range (e.g. 0 < x < 1): fall through to decimal
                if integer:
                    return ilo
            else:
                return ch.int(ilo, ihi)
        if ch.chance(1, 8):
            # values whose repr() uses exponent notation (the printer writes floats with str())
            cands = [x for x in SPECIAL_FLOATS if lo <= x <= hi and not (lo_x and x == lo) and not (hi_x and x == hi)]
            if cands:
                return ch.choice(cands)
        if ch.chance(1, 8):
            # floats that need all 17 significant digits (0.30000000000000004, 51.477811111111116)
            m17 = ch.int(10 ** 15, 10 ** 17 - 1)
            v = (-1 if ch.bool() else 1) * m17 / 10 ** ch.int(0, 17)
            if "e" not in repr(v) and lo <= v <= hi and not (lo_x and v == lo) and not (hi_x and v == hi):
                self.count("num:17_digits")
                return v
        k = ch.choice([1, 2, 3, 4])
        m = ch.int(int(ilo * 10 ** k), int(ihi * 10 ** k))
        v = m / 10 ** k
        if "e" in repr(v) or v < lo or v > hi:
            return ch.int(ilo, ihi) if ilo <= ihi else float(ilo)
        return v

    # ------------------------------------------------------------------ atoms
    def atom(self, type_, slot, alt):
        ch, p = self.ch, self.p
        k, sh = slot.key, alt.shape
        multi = slot.is_multi
        if sh == "string":
            mn, mx = alt.node.get("minLength"), alt.node.get("maxLength")
            if mx == 1:
                return "str", ch.choice(["a", "&", "x", "|", " ", "é", "#"] if not p.forbid else ["a", "&", "x", "|", " "])
            if not p.valid and p.numbers_at_strings and mx != 1 and ch.chance(1, 15):
                # NAME 7: an unquoted number at a string-typed keyword is loaded as a number (and printed back quoted)
                return ("int", ch.int(0, 99999)) if ch.bool() else ("float", ch.choice([0.5, 7.25, 10.0, 3.125]))
            if k == "expression" and slot.alts[0].ref == "expression.json" and ch.chance(1, 6):
                return "listx", self.listx()   # list expression {a,b,c}: unquoted, kept verbatim
            if k == "symbol" and ch.chance(1, 2):
                return "str", ch.choice(strings.WORDS)  # symbol names: usually plain (bare-able) words
            s, _ = self.string(multi_alt=multi)
            if multi and p.valid and not self._string_alt_unambiguous(slot, s):
                s = ch.choice(strings.WORDS)
            return "str", s
        if sh == "strpat":
            pat = alt.arg
            if pat.startswith("^&#"):
                return "str", "&#%d;" % ch.int(32, 99999)
            return "str", pat.strip("^$")
        if sh == "enum":
            e = ch.choice(alt.arg)
            if not isinstance(e, str):
                return "int", e
            sp = ch.choice([e.upper(), e.lower(), e.capitalize()])
            if e.lower() == "end":
                # END is reserved: MapServer needs GEOMTRANSFORM "end" quoted
                return "str", sp
            return "enum", sp
        if sh in ("integer", "number"):
            lo, hi, lx, hx = alt.bounds()
            v = self.number(sh == "integer", lo, hi, lx, hx)
            return ("int" if isinstance(v, int) else "float"), v
        if sh == "boolean":
            return "bool", ch.bool()
        if sh == "numlist":
            it = alt.node["items"]
            n = alt.arg or 2
            lo, hi, lx, hx = alt.bounds(it)
            if n == 3 and hi == 255:
                return "nums", [ch.int(int(lo if lo is not None else 0), 255) for _ in range(3)]
            if n == 6:
                return "nums", [ch.int(0, 255) for _ in range(6)]
            integer = it.get("type") == "integer"
            return "nums", [self.number(integer, lo, hi, lx, hx) for _ in range(n)]
        if sh == "anchor":
            return "nums", [ch.choice([0, 1, 0.5, 0.25]), ch.choice([0, 1, 0.5, 0.75])]
        if sh == "hex":
            if ch.chance(1, 6):
                # the schema's pattern also admits 4 and 7 hex digits; the grammar does not lex those as colours, so they are
                # plain strings (kept verbatim, whatever the quote character)
                return "str", "#" + "".join(ch.choice("0123456789abcdefABCDEF") for _ in range(ch.choice([4, 7])))
            return "hex", self.hexcolor()
        if sh == "bind":
            return "bind", "[" + ch.choice(BIND_NAMES) + "]"
        if sh == "expr":
            if not p.exprs:
                return None
            tree = exprs.gen_tree(ch, p.expr_depth)
            st_ = {}
            s = "(" + exprs.src(tree, ch, stats=st_) + ")"
            return "expr", {"tree": tree, "src": s}
        if sh == "regex":
            r = ch.choice(REGEXES)
            if "KF18" not in p.avoid and ch.chance(1, 4):
                r += "i"
            return "regex", r
        if sh == "hexpair":
            return "hexpair", [self.hexcolor(), self.hexcolor()]
        if sh == "bindpair":
            return "binds", ["[" + ch.choice(BIND_NAMES) + "]", "[" + ch.choice(BIND_NAMES) + "]"]
        if sh == "mixedpair":
            return "mixed", [ch.int(0, 10), "[" + ch.choice(BIND_NAMES) + "]"]
        if sh == "offsetpair":
            kind = ch.int(0, 3)
            a = self.number(False, -50, 50) if kind in (0, 1) else "[" + ch.choice(BIND_NAMES) + "]"
            b = self.number(False, -50, 50) if kind in (0, 2) else "[" + ch.choice(BIND_NAMES) + "]"
            if kind == 0:
                return "nums", [a, b]
            if kind == 3:
                return "binds", [a, b]
            return "mixed", [a, b]
        return None

    def hexcolor(self):
        """#rgb, #rrggbb or #rrggbbaa with drawn digits in either letter case (the lengths grammar and schema agree on)"""
        ch = self.ch
        if ch.chance(1, 4):
            return ch.choice(HEXES)
        n = ch.choice([3, 6, 6, 8, 8])
        return "#" + "".join(ch.choice("0123456789abcdefABCDEF") for _ in range(n))

    def _string_alt_unambiguous(self, slot, s):
        """For valid documents: a free string at a oneOf keyword must not also satisfy
        another alternative (oneOf demands exactly one)."""
        for a in slot.alts:
            if a.shape == "enum" and s.lower() in [str(e).lower() for e in a.arg]:
                return False
        return not strings.is_lookalike(s)


def _in_range(meta, v):
    if not meta:
        return True
    return meta.get("minVersion", 0.0) <= v <= meta.get("maxVersion", 1000.0)


# ---------------------------------------------------------------------- helpers over models

def walk(obj, path=()):
    """Yield (path, obj) for every object of a model."""
    yield path, obj
    for i, it in enumerate(obj["items"]):
        if it[0] == "obj":
            yield from walk(it[1], path + (i,))


def stats_of(doc):
    n_obj = n_kw = depth = 0
    classes = set()
    for root in doc:
        for path, o in walk(root):
            n_obj += 1
            depth = max(depth, len(path))
            for it in o["items"]:
                if it[0] != "obj":
                    n_kw += 1
                    classes.add(it[2] if it[0] == "attr" else it[0])
    return {"objects": n_obj, "keywords": n_kw, "depth": depth, "classes": sorted(classes)}


def document_strategy(profile: Profile, stats=None):
    @st.composite
    def _doc(draw):
        return Gen(Ch(draw), profile, stats).document()

    return _doc()


class RandCh:
    """random.Random-backed chooser - for debugging and replay only (checks use Hypothesis draws)."""

    def __init__(self, seed=0):
        import random

        self.r = random.Random(seed)

    def choice(self, seq):
        return self.r.choice(list(seq))

    def int(self, lo, hi):
        return self.r.randint(lo, hi)

    def bool(self):
        return self.r.random() < 0.5

    def chance(self, num, den):
        return self.r.randrange(den) < num

    def draw(self, strategy):
        return strategy.example()


_COMBOS = None


def slot_combos():
    """every (object type, keyword, alternative index) of the vocabulary"""
    global _COMBOS
    if _COMBOS is None:
        _COMBOS = [(t, k, i) for t in vocab.OBJ_TYPES for k, s in vocab.slots(t).items() for i, _ in enumerate(s.alts)]
    return _COMBOS


def any_document(gen, forced_share=3):
    """1 in `forced_share` documents is built around a drawn (type, keyword, alternative) so that every slot of
    the vocabulary is visited with drawn values in every run, not only statistically."""
    ch = gen.ch
    if not gen.p.roots and ch.chance(1, forced_share):
        combos = slot_combos()
        return gen.forced_document(combos[ch.int(0, len(combos) - 1)])
    return gen.document()
